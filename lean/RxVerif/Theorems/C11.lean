import RxVerif.Conc.Sctl
import RxVerif.Conc.TakeAmbZip
/-
C11 — combinators fed from several threads conserve items and terminate exactly once.

Property (verbatim): "When the inputs of merge, flat_map, zip, concat or amb emit from different threads and none fails,
the subscriber receives every item (merge/flat_map/concat: exactly the multiset of all inputs' items, each input's items
in that input's order; zip: exactly the tuples pairing the i-th items) and exactly one complete, after the last item.
Under any interleaving amb lets exactly one input through, take(n) never delivers more than n items, and no subscriber
ever receives complete twice or error twice."

All theorems quantify over ALL scripts, ALL numbers of inputs and ALL interleavings (reachable states of the
lock-granularity LTSs in `RxVerif/Conc/Sctl.lean` and `RxVerif/Conc/TakeAmbZip.lean`); they are proved by inductive
invariants.  `decide` is only used for concrete non-vacuity examples and concrete witnesses.

Main theorems (merge / StreamController; the first five hold for ALL scripts, failing inputs and a concurrent
  unsubscriber included):  `never_two_terminals`, `finalize_never_unsubscribes`, `terminal_after_own_nexts`,
  `map_empty_all_done`, `last_one_out`;  with "no input fails, nobody unsubscribes": `last_one_out_unique`,
  `merge_prefix`, `merge_conserves`.
take: `take_at_most_n`, `take_never_two_terminals`;  amb: `amb_one_winner`, `amb_never_two_terminals`;
zip: `zip_tuples_safe`, `zip_tuples`.
Witnesses (true of the code as modelled, all OUTSIDE the literal claims of C11): `two_empty_observers_with_error`,
  `next_after_error_possible`, `unsubscribe_cuts_delivery`, `next_after_unsubscribe_returned_possible`,
  `take_next_after_complete_possible`, `take_may_lose_item`, `zip_out_of_order_possible`.
NOT modelled: flat_map (inputs registered dynamically by `new_observer` inside the outer `next`) and concat (inputs
subscribed one after the other, `sink_complete_force` at the end); they share `sink_next`/`sink_complete` with merge.
-/
namespace Rx.C11

/- ===================== part a ===================== -/
open Rx Rx.Conc.Sctl

/-- claimed the subscriber's `fn_next`, terminal callback not started yet -/
def Pc.pre : Pc → Bool
  | .tClr _ | .tTake _ | .tStart _ => true
  | .idle | .nFetchI | .nSub | .nFetch | .nStart | .nCb | .tClaimI _ | .tClrI _ | .tTakeI _ | .tSub _ | .cRemove | .tClaim _
  | .tCb _ | .fLock | .fPick _ | .fU1 _ _ | .fU2 _ _ | .fU3 _ _ | .fClear | .fSub | .fOnFin | .uDead | .uN | .uE
  | .uC => false

/-- program points that are only reached after the subscriber's `fn_next` was taken -/
def Pc.fz : Pc → Bool
  | .tClr _ | .tTake _ | .tStart _ | .tCb _ | .fLock | .fPick _ | .fU1 _ _ | .fU2 _ _ | .fU3 _ _ | .fClear | .fSub
  | .fOnFin | .uE | .uC => true
  | .idle | .nFetchI | .nSub | .nFetch | .nStart | .nCb | .tClaimI _ | .tClrI _ | .tTakeI _ | .tSub _ | .cRemove | .tClaim _
  | .uDead | .uN => false

def termCount (log : List (Nat × Ev)) : Nat := log.countP fun p => p.2.isTerminal

def preCount (ths : List Thread) : Nat := ths.countP fun th => Pc.pre th.pc

structure LocalA (s : State) (th : Thread) : Prop where
  fz : Pc.fz th.pc = true → s.sN = false
  dead : th.pc ≠ .uDead

structure InvA (s : State) : Prop where
  loc : ∀ (j : Nat) (th : Thread), s.threads[j]? = some th → LocalA s th
  slots : s.sN = true → s.sE = true ∧ s.sC = true
  cnt : preCount s.threads + termCount s.log ≤ (if s.sN then 0 else 1)

theorem preCount_set {ths : List Thread} {i : Nat} {th th' : Thread} (hi : ths[i]? = some th) :
    preCount (ths.set i th') + (if Pc.pre th.pc then 1 else 0) = preCount ths + (if Pc.pre th'.pc then 1 else 0) := by
  obtain ⟨hlt, rfl⟩ := List.getElem?_eq_some_iff.mp hi
  unfold preCount
  rw [List.countP_set hlt]
  have : (if Pc.pre ths[i].pc = true then 1 else 0) ≤ List.countP (fun th => Pc.pre th.pc) ths := by
    split
    · rename_i h
      exact List.countP_pos_iff.mpr ⟨ths[i], List.getElem_mem hlt, h⟩
    · omega
  omega

theorem termCount_append (l : List (Nat × Ev)) (p : Nat × Ev) :
    termCount (l ++ [p]) = termCount l + (if p.2.isTerminal then 1 else 0) := by
  simp [termCount, List.countP_append, List.countP_cons]

theorem invA_update {s : State} (h : InvA s) {i : Nat} {th : Thread} (hi : s.threads[i]? = some th)
    (s' : State) (th' : Thread) (hth : s'.threads = s.threads.set i th')
    (hmono : s'.sN = true → s.sN = true)
    (hloc : LocalA s' th')
    (hslots : s'.sN = true → s'.sE = true ∧ s'.sC = true)
    (hcnt : (if Pc.pre th'.pc then 1 else 0) + termCount s'.log + (if s.sN then 0 else 1)
        ≤ (if s'.sN then 0 else 1) + (if Pc.pre th.pc then 1 else 0) + termCount s.log) :
    InvA s' := by
  have hlt : i < s.threads.length := (List.getElem?_eq_some_iff.mp hi).1
  refine ⟨?_, hslots, ?_⟩
  · intro j tj hj
    rw [hth, List.getElem?_set] at hj
    by_cases hij : i = j
    · subst hij; simp [hlt] at hj; subst hj; exact hloc
    · simp [hij] at hj
      have := h.loc j tj hj
      refine ⟨fun hf => ?_, this.dead⟩
      have h1 := this.fz hf
      cases h2 : s'.sN with
      | false => rfl
      | true => rw [hmono h2] at h1; cases h1
  · rw [hth]
    have h1 := preCount_set (th' := th') hi
    have h2 := h.cnt
    omega


theorem termCount_append_next (l : List (Nat × Ev)) (i : Nat) (o : List Data) :
    termCount (logNext l i o) = termCount l := by
  cases o <;> simp [logNext, termCount, List.countP_append, Ev.isTerminal]

theorem termCount_append_term (l : List (Nat × Ev)) (i : Nat) (t : Term) :
    termCount (l ++ [(i, t.ev)]) = termCount l + 1 := by
  cases t <;> simp [termCount, List.countP_append, Ev.isTerminal, Term.ev]

macro "dischA" h:ident hi:ident : tactic => `(tactic| (
  refine invA_update $h $hi _ _ rfl ?_ ⟨?_, ?_⟩ ?_ ?_ <;>
  simp only [State.upd, State.isSub] <;>
  grind [Pc.fz, Pc.pre, = termCount_append_next, = termCount_append_term]))

theorem invA_step {s s' : State} {l : Label} (h : InvA s) (hs : step s l = some s') : InvA s' := by
  unfold step at hs
  cases hi : s.threads[l.tid]? with
  | none => simp [hi] at hs
  | some th =>
    simp only [hi] at hs
    have hl := h.loc _ _ hi
    have hfz := hl.fz
    have hdead := hl.dead
    have hsl := h.slots
    have hc := h.cnt
    cases hpc : th.pc <;> simp only [hpc] at hs hfz hdead
    case idle =>
      split at hs
      · simp only [Option.some.injEq] at hs; subst hs; dischA h hi
      · simp only [Option.some.injEq] at hs; subst hs; dischA h hi
      · split at hs
        · simp only [Option.some.injEq] at hs; subst hs; dischA h hi
        · cases hs
    case cRemove =>
      split at hs
      · simp only [Option.some.injEq] at hs; subst hs; dischA h hi
      · cases hs
    case fClear =>
      split at hs
      · simp only [Option.some.injEq] at hs; subst hs; dischA h hi
      · cases hs
    case fPick =>
      split at hs
      · simp only [Option.some.injEq] at hs; subst hs; dischA h hi
      · split at hs
        · simp only [Option.some.injEq] at hs; subst hs; dischA h hi
        · cases hs
    case uDead => cases hs
    all_goals (simp only [Option.some.injEq] at hs; subst hs; dischA h hi)

/- ===================== part b ===================== -/
open Rx Rx.Conc.Sctl

/-- inside the terminal call of the script (program order: all `next` calls of this input have returned) -/
def Pc.termPhase : Pc → Bool
  | .tClaimI _ | .tClrI _ | .tTakeI _ | .tSub _ | .cRemove | .tClaim _ | .tClr _ | .tTake _ | .tStart _ | .tCb _ => true
  | .idle | .nFetchI | .nSub | .nFetch | .nStart | .nCb | .fLock | .fPick _ | .fU1 _ _ | .fU2 _ _ | .fU3 _ _ | .fClear | .fSub
  | .fOnFin | .uDead | .uN | .uE | .uC => false

/-- program points after `remove(serial)` of the own terminal (or between calls) -/
def Pc.post : Pc → Bool
  | .idle | .tClaim _ | .tClr _ | .tTake _ | .tStart _ | .tCb _ | .fLock | .fPick _ | .fU1 _ _ | .fU2 _ _ | .fU3 _ _
  | .fClear | .fSub | .fOnFin | .uDead | .uN | .uE | .uC => true
  | .nFetchI | .nSub | .nFetch | .nStart | .nCb | .tClaimI _ | .tClrI _ | .tTakeI _ | .tSub _ | .cRemove => false

/-- the input has made all its `next` calls (they all returned) and is past the `remove` of its terminal -/
def Thread.past (th : Thread) : Prop := th.todo = [] ∧ th.fin = none ∧ Pc.post th.pc = true

structure LocalB (s : State) (th : Thread) : Prop where
  tp : Pc.termPhase th.pc = true → th.todo = [] ∧ th.fin = none
  emp : th.pc = .tClaim .complete → allFalse s.live = true
  cl : ∀ t, (th.pc = .tClr t ∨ th.pc = .tTake t ∨ th.pc = .tStart t) → s.claim = some t

structure InvB (s : State) : Prop where
  loc : ∀ (j : Nat) (th : Thread), s.threads[j]? = some th → LocalB s th
  liveOut : s.sN = true → ∀ (j : Nat) (th : Thread), s.threads[j]? = some th → get s.live j = false → Thread.past th
  noClaim : s.sN = true → s.claim = none
  claimC : s.claim = some .complete → ∀ (j : Nat) (th : Thread), s.threads[j]? = some th → Thread.past th
  logC : ∀ (j : Nat), (j, Ev.complete) ∈ s.log → s.claim = some .complete ∧ s.log.getLast? = some (j, Ev.complete)

theorem invB_update {s : State} (hA : InvA s) (h : InvB s) {i : Nat} {th : Thread} (hi : s.threads[i]? = some th)
    (s' : State) (th' : Thread) (hth : s'.threads = s.threads.set i th')
    (hmono : s'.sN = true → s.sN = true)
    (hlive : allFalse s.live = true → allFalse s'.live = true)
    (hclaim : s.sN = false → s'.claim = s.claim)
    (hloc : LocalB s' th')
    (hliveOut : s'.sN = true → (∀ j, j ≠ i → get s'.live j = get s.live j) ∧ (get s'.live i = false → Thread.past th'))
    (hnoClaim : s'.sN = true → s'.claim = none)
    (hpast : Thread.past th → Thread.past th')
    (hclaimC : s'.claim = some .complete →
       s.claim = some .complete ∨ (s.sN = true ∧ allFalse s.live = true ∧ Thread.past th'))
    (hlogC : ∀ (j : Nat), (j, Ev.complete) ∈ s'.log →
       s'.claim = some .complete ∧ s'.log.getLast? = some (j, Ev.complete)) :
    InvB s' := by
  have hlt : i < s.threads.length := (List.getElem?_eq_some_iff.mp hi).1
  refine ⟨?_, ?_, hnoClaim, ?_, hlogC⟩
  · intro j tj hj
    rw [hth, List.getElem?_set] at hj
    by_cases hij : i = j
    · subst hij; simp [hlt] at hj; subst hj; exact hloc
    · simp [hij] at hj
      have hl := h.loc j tj hj
      refine ⟨hl.tp, fun he => hlive (hl.emp he), fun t ht => ?_⟩
      have hfz : Pc.fz tj.pc = true := by rcases ht with ht | ht | ht <;> simp [ht, Pc.fz]
      rw [hclaim ((hA.loc j tj hj).fz hfz)]
      exact hl.cl t ht
  · intro hn j tj hj hg
    rw [hth, List.getElem?_set] at hj
    by_cases hij : i = j
    · subst hij; simp [hlt] at hj; subst hj; exact (hliveOut hn).2 hg
    · simp [hij] at hj
      rw [(hliveOut hn).1 j (Ne.symm hij)] at hg
      exact h.liveOut (hmono hn) j tj hj hg
  · intro hc j tj hj
    rw [hth, List.getElem?_set] at hj
    rcases hclaimC hc with hold | ⟨hn, hall, hp⟩
    · by_cases hij : i = j
      · subst hij; simp [hlt] at hj; subst hj; exact hpast (h.claimC hold i th hi)
      · simp [hij] at hj; exact h.claimC hold j tj hj
    · by_cases hij : i = j
      · subst hij; simp [hlt] at hj; subst hj; exact hp
      · simp [hij] at hj; exact h.liveOut hn j tj hj (allFalse_get hall j)


theorem allFalse_set_false {l : List Bool} (i : Nat) (h : allFalse l = true) : allFalse (l.set i false) = true := by
  apply allFalse_of_get
  intro j _
  rw [get_set]
  split
  · rfl
  · exact allFalse_get h j

theorem allFalse_replicate (n : Nat) : allFalse (List.replicate n false) = true := by
  simp [allFalse]

theorem get_set_ne (l : List Bool) {i j : Nat} (b : Bool) (h : j ≠ i) : get (l.set i b) j = get l j := by
  rw [get_set]; simp [Ne.symm h]

theorem mem_logNext_complete {log : List (Nat × Ev)} {i j : Nat} {todo : List Data}
    (h : (j, Ev.complete) ∈ logNext log i todo) : (j, Ev.complete) ∈ log := by
  cases todo <;> simp [logNext] at h <;> exact h

theorem termCount_pos_of_mem {log : List (Nat × Ev)} {j : Nat} (h : (j, Ev.complete) ∈ log) : 1 ≤ termCount log :=
  List.countP_pos_iff.mpr ⟨_, h, rfl⟩

theorem preCount_pos {ths : List Thread} {i : Nat} {th : Thread} (hi : ths[i]? = some th) (hp : Pc.pre th.pc = true) :
    1 ≤ preCount ths :=
  List.countP_pos_iff.mpr ⟨th, List.mem_of_getElem? hi, hp⟩

macro "grindB" : tactic => `(tactic| (
  (try simp only [State.upd, State.isSub]) <;>
  grind [Term.isC, Thread.past, Pc.post, Pc.termPhase, Pc.fz, allFalse_set_false, allFalse_replicate, get_set_ne]))

theorem Term.ev_eq_complete {t : Term} (h : Ev.complete = t.ev) : t = .complete := by
  cases t
  · rfl
  · simp [Term.ev] at h

/-- partition of the program points (only to keep each proof below the default heartbeat limit) -/
def Pc.grp : Pc → Nat
  | .idle | .nFetchI | .nSub | .nFetch | .nStart | .nCb | .tClaimI _ | .tClrI _ | .tTakeI _ | .tSub _ => 0
  | .cRemove | .tClaim _ | .tClr _ | .tTake _ | .tStart _ | .tCb _ | .fLock | .fPick _ => 1
  | .fU1 _ _ | .fU2 _ _ | .fU3 _ _ | .fClear | .fSub | .fOnFin | .uDead | .uN | .uE | .uC => 2

set_option hygiene false in
/-- the `logC` obligation: unchanged log / `next` appended / terminal appended -/
macro "logCB" : tactic => `(tactic| first
  | exact hlc
  | (intro j hj
     have hj' : (j, Ev.complete) ∈ s.log := mem_logNext_complete hj
     have hp := hcc (hlc j hj').1 _ _ hi
     simp [Thread.past, hpc, Pc.post] at hp
     done)
  | (intro j hj
     have hold : (j, Ev.complete) ∉ s.log := by
       intro hj'
       have h1 := termCount_pos_of_mem hj'
       have h2 := preCount_pos hi (by simp [hpc, Pc.pre])
       have h3 := hA.cnt
       split at h3 <;> omega
     simp only [State.upd] at hj ⊢
     rcases List.mem_append.mp hj with hj | hj
     · exact absurd hj hold
     · simp only [List.mem_singleton, Prod.mk.injEq] at hj
       have ht := Term.ev_eq_complete hj.2
       have hc := hcl _ (Or.inr (Or.inr rfl))
       rw [ht] at hc
       refine ⟨hc, ?_⟩
       simp [hj.1, ht, Term.ev])
  | grindB)

set_option hygiene false in
macro "dischB" : tactic => `(tactic| (
  simp only [Option.some.injEq] at hs; subst hs
  refine invB_update hA h hi _ _ rfl ?_ ?_ ?_ ⟨?_, ?_, ?_⟩ ?_ ?_ ?_ ?_ (by logCB) <;> grindB))

set_option hygiene false in
macro "proofB" : tactic => `(tactic| (
  unfold step at hs
  simp only [hi] at hs
  have hlA := hA.loc _ _ hi
  have hfz := hlA.fz
  have hl := h.loc _ _ hi
  have htp := hl.tp
  have hemp := hl.emp
  have hcl := hl.cl
  have hlo := h.liveOut
  have hnc := h.noClaim
  have hcc := h.claimC
  have hsl := hA.slots
  have hlc := h.logC
  cases hpc : th.pc <;> simp only [hpc] at hs hfz htp hemp hcl hg <;> (try (simp [Pc.grp] at hg; done)) <;>
  first
  | (cases hs; done)
  | dischB
  | (split at hs <;> first
      | (cases hs; done)
      | dischB
      | (split at hs <;> first | (cases hs; done) | dischB))))

section
variable {s s' : State} {l : Label} {th : Thread}

theorem invB_step0 (hA : InvA s) (h : InvB s) (hi : s.threads[l.tid]? = some th) (hg : Pc.grp th.pc = 0)
    (hs : step s l = some s') : InvB s' := by
  proofB

theorem invB_step1 (hA : InvA s) (h : InvB s) (hi : s.threads[l.tid]? = some th) (hg : Pc.grp th.pc = 1)
    (hs : step s l = some s') : InvB s' := by
  proofB

theorem invB_step2 (hA : InvA s) (h : InvB s) (hi : s.threads[l.tid]? = some th) (hg : Pc.grp th.pc = 2)
    (hs : step s l = some s') : InvB s' := by
  proofB

theorem invB_step (hA : InvA s) (h : InvB s) (hs : step s l = some s') : InvB s' := by
  cases hi : s.threads[l.tid]? with
  | none => simp [step, hi] at hs
  | some th =>
    have : Pc.grp th.pc = 0 ∨ Pc.grp th.pc = 1 ∨ Pc.grp th.pc = 2 := by
      cases th.pc <;> simp [Pc.grp]
    rcases this with hg | hg | hg
    · exact invB_step0 hA h hi hg hs
    · exact invB_step1 hA h hi hg hs
    · exact invB_step2 hA h hi hg hs

end

/- ===================== part c ===================== -/
open Rx Rx.Conc.Sctl

theorem init_thread {scripts : List Script} {j : Nat} {th : Thread} (h : (init scripts).threads[j]? = some th) :
    ∃ sc, scripts[j]? = some sc ∧ th = sc.thread := by
  simp only [init, List.getElem?_map] at h
  cases hsc : scripts[j]? with
  | none => simp [hsc] at h
  | some sc => simp [hsc] at h; exact ⟨sc, rfl, h.symm⟩

theorem init_live {scripts : List Script} {j : Nat} {sc : Script} (h : scripts[j]? = some sc) :
    Conc.Sctl.get (init scripts).live j = !sc.unsub ∧ Conc.Sctl.get (init scripts).iN j = !sc.unsub ∧
    Conc.Sctl.get (init scripts).iC j = !sc.unsub := by
  simp [init, Conc.Sctl.get, List.getElem?_map, h]

theorem invA_init (scripts : List Script) : InvA (init scripts) := by
  refine ⟨?_, ?_, ?_⟩
  · intro j th hj
    obtain ⟨sc, _, rfl⟩ := init_thread hj
    exact ⟨by simp [Script.thread, Pc.fz], by simp [Script.thread]⟩
  · intro _; exact ⟨rfl, rfl⟩
  · have : preCount (init scripts).threads = 0 := by
      simp [preCount, init, List.countP_eq_zero, Pc.pre, Script.thread]
    rw [this]; simp [init, termCount]

theorem invB_init (scripts : List Script) : InvB (init scripts) := by
  refine ⟨?_, ?_, ?_, ?_, ?_⟩
  · intro j th hj
    obtain ⟨sc, _, rfl⟩ := init_thread hj
    exact ⟨by simp [Script.thread, Pc.termPhase], by simp [Script.thread], by simp [Script.thread]⟩
  · intro _ j th hj hg
    obtain ⟨sc, hsc, rfl⟩ := init_thread hj
    rw [(init_live hsc).1] at hg
    have hu : sc.unsub = true := by simpa using hg
    simp [Thread.past, Script.thread, hu, Pc.post]
  · intro _; rfl
  · intro h; simp [init] at h
  · intro j h; simp [init] at h

theorem inv_reachable {scripts : List Script} {s : State} (h : Reachable scripts s) : InvA s ∧ InvB s := by
  induction h with
  | init => exact ⟨invA_init scripts, invB_init scripts⟩
  | step _ hs ih => exact ⟨invA_step ih.1 hs, invB_step ih.1 ih.2 hs⟩


/-! ## Main theorems about the merge / StreamController LTS that hold for ALL scripts (errors included) -/

/-- **never_two_terminals** (merge instance).  Whatever the scripts (any number of inputs, with or without errors) and
    whatever the interleaving, at most ONE terminal callback (complete or error) ever starts at the subscriber:
    never complete twice, never error twice, never both. -/
theorem never_two_terminals {scripts : List Script} {s : State} (h : Reachable scripts s) :
    (s.log.filter fun p => p.2.isTerminal).length ≤ 1 := by
  have hc := (inv_reachable h).1.cnt
  rw [← List.countP_eq_length_filter]
  unfold termCount at hc
  split at hc <;> omega

/-- the branch `if self.subscriber.is_subscribed() { self.subscriber.unsubscribe() }` inside `finalize`
    (stream_controller.rs l.139-141) is never taken by an input thread of merge. -/
theorem finalize_never_unsubscribes {scripts : List Script} {s : State} (h : Reachable scripts s) :
    ∀ th ∈ s.threads, th.pc ≠ .uDead := by
  intro th hth
  obtain ⟨j, hj⟩ := List.getElem?_of_mem hth
  exact ((inv_reachable h).1.loc j th hj).dead

/-- program order: a thread that is inside its terminal call (`sink_complete`/`sink_error` and everything before /
    after it) has made all its `next` calls, and they have returned. -/
theorem terminal_after_own_nexts {scripts : List Script} {s : State} (h : Reachable scripts s) :
    ∀ th ∈ s.threads, Pc.termPhase th.pc = true → th.todo = [] ∧ th.fin = none := by
  intro th hth
  obtain ⟨j, hj⟩ := List.getElem?_of_mem hth
  exact ((inv_reachable h).2.loc j th hj).tp

/-- **last_one_out, part 1** ("when the map becomes empty all inputs have finished their nexts").
    As long as nobody has claimed the subscriber's `fn_next` (so no `finalize` has run `clear()`), a serial is missing
    from `unscribers` only if its input has passed its own `remove`, which comes after all its `next` calls returned.
    In particular, when the map is empty every input is past all of its `next` callbacks. -/
theorem map_empty_all_done {scripts : List Script} {s : State} (h : Reachable scripts s) (hN : s.sN = true) :
    (∀ (j : Nat) (th : Thread), s.threads[j]? = some th → Conc.Sctl.get s.live j = false → Thread.past th) ∧
    (allFalse s.live = true → ∀ th ∈ s.threads, Thread.past th) := by
  have hB := (inv_reachable h).2
  refine ⟨hB.liveOut hN, fun hall th hth => ?_⟩
  obtain ⟨j, hj⟩ := List.getElem?_of_mem hth
  exact hB.liveOut hN j th hj (allFalse_get hall j)

theorem getLast?_eq_some_append {α : Type} {l : List α} {a : α} (h : l.getLast? = some a) : ∃ pre, l = pre ++ [a] := by
  induction l with
  | nil => simp at h
  | cons x xs ih =>
    cases xs with
    | nil => simp at h; subst h; exact ⟨[], rfl⟩
    | cons y ys =>
      rw [List.getLast?_cons_cons] at h
      obtain ⟨pre, hp⟩ := ih h
      exact ⟨x :: pre, by rw [hp]; rfl⟩

/-- **last_one_out, part 2.**  If the `complete` callback has started (delivered by thread `j`), then — for all scripts
    and interleavings — every input thread has finished all of its `next` calls (each returned) and is past its
    `remove`; the `complete` is the LAST event of the log, and everything before it is a `next`
    (no terminal precedes it, none follows, no `next` callback starts after it). -/
theorem last_one_out {scripts : List Script} {s : State} (h : Reachable scripts s) (j : Nat)
    (hc : (j, Ev.complete) ∈ s.log) :
    (∀ th ∈ s.threads, Thread.past th) ∧
    ∃ pre, s.log = pre ++ [(j, Ev.complete)] ∧ ∀ p ∈ pre, p.2.isTerminal = false := by
  obtain ⟨hA, hB⟩ := inv_reachable h
  obtain ⟨hcl, hlast⟩ := hB.logC j hc
  refine ⟨fun th hth => ?_, ?_⟩
  · obtain ⟨i, hi⟩ := List.getElem?_of_mem hth
    exact hB.claimC hcl i th hi
  · obtain ⟨pre, hp⟩ := getLast?_eq_some_append hlast
    refine ⟨pre, hp, fun p hpm => ?_⟩
    have hcnt := hA.cnt
    rw [hp] at hcnt
    have : termCount (pre ++ [(j, Ev.complete)]) = termCount pre + 1 := by
      simp [termCount, List.countP_append, Ev.isTerminal]
    rw [this] at hcnt
    have h0 : termCount pre = 0 := by split at hcnt <;> omega
    cases hpt : p.2.isTerminal with
    | false => rfl
    | true =>
      have : 0 < termCount pre := List.countP_pos_iff.mpr ⟨p, hpm, hpt⟩
      omega

/-- only a thread that has seen `len()==0` in `sink_complete` (or the unique error claimant) can deliver a terminal:
    the winner of the claim of `fn_next` is recorded, and a `complete` in the log implies that `complete` won. -/
theorem complete_implies_claim {scripts : List Script} {s : State} (h : Reachable scripts s) (j : Nat)
    (hc : (j, Ev.complete) ∈ s.log) : s.claim = some .complete ∧ s.sN = false := by
  obtain ⟨_, hB⟩ := inv_reachable h
  have h1 := (hB.logC j hc).1
  refine ⟨h1, ?_⟩
  cases hn : s.sN with
  | false => rfl
  | true => rw [hB.noClaim hn] at h1; cases h1

/- ===================== part d ===================== -/
open Rx Rx.Conc.Sctl

/-! ## No input fails: conservation (`merge_conserves`) -/

/-! ### pure list lemmas -/

theorem proj_append_next (log : List (Nat × Ev)) (i j : Nat) (x : Data) :
    proj j (log ++ [(i, Ev.next x)]) = if i = j then proj j log ++ [x] else proj j log := by
  unfold proj
  rw [List.filterMap_append]
  by_cases h : i = j <;> simp [h]

theorem proj_append_term (log : List (Nat × Ev)) (i j : Nat) (t : Term) :
    proj j (log ++ [(i, t.ev)]) = proj j log := by
  unfold proj
  rw [List.filterMap_append]
  cases t <;> by_cases h : i = j <;> simp [h, Term.ev]

theorem items_append_next (log : List (Nat × Ev)) (i : Nat) (x : Data) :
    items (log ++ [(i, Ev.next x)]) = items log ++ [x] := by
  unfold items
  rw [List.filterMap_append]
  simp

theorem items_append_term (log : List (Nat × Ev)) (i : Nat) (t : Term) :
    items (log ++ [(i, t.ev)]) = items log := by
  unfold items
  rw [List.filterMap_append]
  cases t <;> simp [Term.ev]

theorem flatMap_todo_set_same {ths : List Thread} {i : Nat} {th th' : Thread} (hi : ths[i]? = some th)
    (h : th'.todo = th.todo) : (ths.set i th').flatMap (·.todo) = ths.flatMap (·.todo) := by
  induction ths generalizing i with
  | nil => simp at hi
  | cons t ts ih =>
    cases i with
    | zero => simp at hi; subst hi; simp [h]
    | succ n => simp at hi; simp [ih hi]

theorem flatMap_todo_set_pop {ths : List Thread} {i : Nat} {th th' : Thread} {x : Data} {r : List Data}
    (hi : ths[i]? = some th) (h : th.todo = x :: r) (h' : th'.todo = r) :
    (ths.flatMap (·.todo)).Perm (x :: (ths.set i th').flatMap (·.todo)) := by
  induction ths generalizing i with
  | nil => simp at hi
  | cons t ts ih =>
    cases i with
    | zero => simp at hi; subst hi; simp [h, h']
    | succ n =>
      simp at hi
      simp only [List.set_cons_succ, List.flatMap_cons]
      exact (List.Perm.append_left t.todo (ih hi)).trans List.perm_middle


/-! ### conservation part of the invariant -/

structure Conserv (scripts : List Script) (s : State) : Prop where
  len : s.threads.length = scripts.length
  perm : (items s.log ++ s.threads.flatMap (·.todo)).Perm (scripts.flatMap (·.items))
  each : ∀ (i : Nat) (th : Thread) (sc : Script), s.threads[i]? = some th → scripts[i]? = some sc →
    proj i s.log ++ th.todo = sc.items

/-- how one step may touch log and own todo -/
inductive LogStep (s s' : State) (i : Nat) (th th' : Thread) : Prop
  | same : s'.log = s.log → th'.todo = th.todo → LogStep s s' i th th'
  | next (x : Data) (r : List Data) : th.todo = x :: r → th'.todo = r → s'.log = s.log ++ [(i, Ev.next x)] →
      LogStep s s' i th th'
  | term (t : Term) : s'.log = s.log ++ [(i, t.ev)] → th'.todo = th.todo → LogStep s s' i th th'

theorem conserv_update {scripts : List Script} {s : State} (h : Conserv scripts s) {i : Nat} {th : Thread}
    (hi : s.threads[i]? = some th) (s' : State) (th' : Thread) (hth : s'.threads = s.threads.set i th')
    (hl : LogStep s s' i th th') : Conserv scripts s' := by
  have hlt : i < s.threads.length := (List.getElem?_eq_some_iff.mp hi).1
  have hother : ∀ j tj, s'.threads[j]? = some tj → j ≠ i → s.threads[j]? = some tj := by
    intro j tj hj hne
    rw [hth, List.getElem?_set] at hj
    simpa [Ne.symm hne] using hj
  have hown : s'.threads[i]? = some th' := by rw [hth, List.getElem?_set]; simp [hlt]
  have hlen : s'.threads.length = scripts.length := by rw [hth, List.length_set]; exact h.len
  cases hl with
  | same hlog htodo =>
    refine ⟨hlen, ?_, ?_⟩
    · rw [hlog, hth, flatMap_todo_set_same hi htodo]; exact h.perm
    · intro j tj sc hj hsc
      rw [hlog]
      by_cases hji : j = i
      · subst hji; rw [hown] at hj; cases hj; rw [htodo]; exact h.each j th sc hi hsc
      · exact h.each j tj sc (hother j tj hj hji) hsc
  | next x r htodo htodo' hlog =>
    refine ⟨hlen, ?_, ?_⟩
    · rw [hlog, hth, items_append_next, List.append_assoc]
      refine List.Perm.trans ?_ h.perm
      apply List.Perm.append_left
      exact (flatMap_todo_set_pop hi htodo htodo').symm
    · intro j tj sc hj hsc
      rw [hlog, proj_append_next]
      by_cases hji : j = i
      · subst hji; rw [hown] at hj; cases hj
        have := h.each j th sc hi hsc
        rw [htodo] at this
        simp [htodo', ← this]
      · simp [Ne.symm hji]; exact h.each j tj sc (hother j tj hj hji) hsc
  | term t hlog htodo =>
    refine ⟨hlen, ?_, ?_⟩
    · rw [hlog, hth, items_append_term, flatMap_todo_set_same hi htodo]; exact h.perm
    · intro j tj sc hj hsc
      rw [hlog, proj_append_term]
      by_cases hji : j = i
      · subst hji; rw [hown] at hj; cases hj; rw [htodo]; exact h.each j th sc hi hsc
      · exact h.each j tj sc (hother j tj hj hji) hsc

theorem flatMap_thread_todo (scripts : List Script) (hnu : ∀ sc ∈ scripts, sc.unsub = false) :
    List.flatMap (fun sc => (Script.thread sc).todo) scripts = scripts.flatMap (·.items) := by
  induction scripts with
  | nil => rfl
  | cons a t ih =>
    simp only [List.flatMap_cons]
    rw [ih fun sc hsc => hnu sc (List.mem_cons_of_mem _ hsc)]
    simp [Script.thread, hnu a (List.mem_cons_self)]

theorem conserv_init {scripts : List Script} (hnu : ∀ sc ∈ scripts, sc.unsub = false) :
    Conserv scripts (init scripts) := by
  refine ⟨by simp [init], ?_, ?_⟩
  · have : (init scripts).threads.flatMap (·.todo) = scripts.flatMap (·.items) := by
      simp only [init, List.flatMap_map]
      exact flatMap_thread_todo scripts hnu
    rw [this]; simp [init, items]
  · intro i th sc hi hsc
    obtain ⟨sc', hsc', rfl⟩ := init_thread hi
    rw [hsc] at hsc'; cases hsc'
    simp [init, proj, Script.thread, hnu sc (List.mem_of_getElem? hsc)]


/-! ### phase A: nobody has seen the map empty yet -/

def Pc.inA : Pc → Bool
  | .idle | .nFetchI | .nSub | .nFetch | .nStart | .nCb | .tClaimI _ | .tClrI _ | .tTakeI _ | .tSub _ | .cRemove => true
  | .tClaim _ | .tClr _ | .tTake _ | .tStart _ | .tCb _ | .fLock | .fPick _ | .fU1 _ _ | .fU2 _ _ | .fU3 _ _ | .fClear | .fSub
  | .fOnFin | .uDead | .uN | .uE | .uC => false

def Pc.nPhase : Pc → Bool
  | .nFetchI | .nSub | .nFetch | .nStart | .nCb => true
  | .idle | .tClaimI _ | .tClrI _ | .tTakeI _ | .tSub _ | .cRemove
  | .tClaim _ | .tClr _ | .tTake _ | .tStart _ | .tCb _ | .fLock | .fPick _ | .fU1 _ _ | .fU2 _ _ | .fU3 _ _ | .fClear | .fSub
  | .fOnFin | .uDead | .uN | .uE | .uC => false

def Pc.nHead : Pc → Bool
  | .nFetchI | .nSub | .nFetch | .nStart => true
  | .nCb | .idle | .tClaimI _ | .tClrI _ | .tTakeI _ | .tSub _ | .cRemove
  | .tClaim _ | .tClr _ | .tTake _ | .tStart _ | .tCb _ | .fLock | .fPick _ | .fU1 _ _ | .fU2 _ _ | .fU3 _ _ | .fClear | .fSub
  | .fOnFin | .uDead | .uN | .uE | .uC => false

def Pc.needN : Pc → Bool
  | .tClaimI _ => true
  | .nFetchI | .nSub | .nFetch | .nStart | .nCb | .idle | .tClrI _ | .tTakeI _ | .tSub _ | .cRemove
  | .tClaim _ | .tClr _ | .tTake _ | .tStart _ | .tCb _ | .fLock | .fPick _ | .fU1 _ _ | .fU2 _ _ | .fU3 _ _ | .fClear | .fSub
  | .fOnFin | .uDead | .uN | .uE | .uC => false

def Pc.needC : Pc → Bool
  | .tClaimI _ | .tClrI _ | .tTakeI _ => true
  | .nFetchI | .nSub | .nFetch | .nStart | .nCb | .idle | .tSub _ | .cRemove
  | .tClaim _ | .tClr _ | .tTake _ | .tStart _ | .tCb _ | .fLock | .fPick _ | .fU1 _ _ | .fU2 _ _ | .fU3 _ _ | .fClear | .fSub
  | .fOnFin | .uDead | .uN | .uE | .uC => false

def Pc.needL : Pc → Bool
  | .tClaimI _ | .tClrI _ | .tTakeI _ | .tSub _ | .cRemove => true
  | .nFetchI | .nSub | .nFetch | .nStart | .nCb | .idle
  | .tClaim _ | .tClr _ | .tTake _ | .tStart _ | .tCb _ | .fLock | .fPick _ | .fU1 _ _ | .fU2 _ _ | .fU3 _ _ | .fClear | .fSub
  | .fOnFin | .uDead | .uN | .uE | .uC => false

/-- every terminal mentioned by the program counter is `complete` -/
def Pc.termOk : Pc → Bool
  | .tClaimI t | .tClrI t | .tTakeI t | .tSub t | .tClaim t | .tClr t | .tTake t | .tStart t | .tCb t => t.isC
  | .nFetchI | .nSub | .nFetch | .nStart | .nCb | .idle | .cRemove
  | .fLock | .fPick _ | .fU1 _ _ | .fU2 _ _ | .fU3 _ _ | .fClear | .fSub | .fOnFin | .uDead | .uN | .uE | .uC => true

structure LocalNA (s : State) (i : Nat) (th : Thread) : Prop where
  inA : Pc.inA th.pc = true
  termOk : Pc.termOk th.pc = true
  finOk : ∀ t, th.fin = some t → t.isC = true
  nN : (th.fin ≠ none ∨ Pc.needN th.pc = true) → Conc.Sctl.get s.iN i = true
  nC : (th.fin ≠ none ∨ Pc.needC th.pc = true) → Conc.Sctl.get s.iC i = true
  nL : Conc.Sctl.get s.live i = true ↔ (th.fin ≠ none ∨ Pc.needL th.pc = true)
  head : Pc.nHead th.pc = true → th.todo ≠ []
  nfin : Pc.nPhase th.pc = true → th.fin ≠ none
  tp : Pc.termPhase th.pc = true → th.todo = [] ∧ th.fin = none
  finNone : th.fin = none → th.todo = []
  noUnsub : th.unsub = false

structure PhaseA (scripts : List Script) (s : State) : Prop where
  lenT : s.threads.length = scripts.length
  lenL : s.live.length = scripts.length
  lenN : s.iN.length = scripts.length
  lenC : s.iC.length = scripts.length
  sub : s.sN = true ∧ s.sE = true ∧ s.sC = true
  noTerm : termCount s.log = 0
  nonEmpty : scripts ≠ [] → allFalse s.live = false
  loc : ∀ (i : Nat) (th : Thread), s.threads[i]? = some th → LocalNA s i th

/-! ### phase B: thread `a` has seen the map empty; it is the only thread that can still move -/

/-- 1: about to claim; 2,3: claimed, own slot not taken yet; 5: slot taken, callback not started; 4: callback started or
    later; 0: not a phase-B point -/
def Pc.stageB : Pc → Nat
  | .tClaim _ => 1
  | .tClr _ => 2
  | .tTake _ => 3
  | .tStart _ => 5
  | .tCb _ | .fLock | .fPick _ | .fU1 _ _ | .fU2 _ _ | .fU3 _ _ | .fClear | .fSub | .fOnFin | .idle => 4
  | .nFetchI | .nSub | .nFetch | .nStart | .nCb | .tClaimI _ | .tClrI _ | .tTakeI _ | .tSub _ | .cRemove | .uDead | .uN
  | .uE | .uC => 0

structure LocalNB (s : State) (a : Nat) (th : Thread) : Prop where
  inB : Pc.stageB th.pc ≠ 0
  termOk : Pc.termOk th.pc = true
  todo : th.todo = []
  fin : th.fin = none
  noUnsub : th.unsub = false
  st1 : Pc.stageB th.pc = 1 → s.sN = true ∧ s.sE = true ∧ s.sC = true ∧ termCount s.log = 0
  st23 : (Pc.stageB th.pc = 2 ∨ Pc.stageB th.pc = 3) → s.sN = false ∧ s.sC = true ∧ termCount s.log = 0
  st5 : Pc.stageB th.pc = 5 → s.sN = false ∧ termCount s.log = 0
  st4 : Pc.stageB th.pc = 4 → s.sN = false ∧ s.log.getLast? = some (a, Ev.complete)

structure PhaseB (s : State) (a : Nat) : Prop where
  own : ∃ th, s.threads[a]? = some th ∧ LocalNB s a th
  others : ∀ (j : Nat) (th : Thread), j ≠ a → s.threads[j]? = some th → th = { todo := [], fin := none, unsub := false, pc := .idle }

def Phase (scripts : List Script) (s : State) : Prop :=
  match s.emptyObs with
  | [] => PhaseA scripts s
  | [a] => PhaseB s a
  | _ => False

structure InvN (scripts : List Script) (s : State) : Prop where
  conserv : Conserv scripts s
  phase : Phase scripts s


theorem phase_of_A {scripts : List Script} {s : State} (he : s.emptyObs = []) (h : PhaseA scripts s) :
    Phase scripts s := by
  unfold Phase; rw [he]; exact h

theorem phase_of_B {scripts : List Script} {s : State} {a : Nat} (he : s.emptyObs = [a]) (h : PhaseB s a) :
    Phase scripts s := by
  unfold Phase; rw [he]; exact h

theorem get_set_self (l : List Bool) {i : Nat} (b : Bool) (h : i < l.length) : Conc.Sctl.get (l.set i b) i = b := by
  rw [get_set]; simp [h]

theorem phaseA_update {scripts : List Script} {s : State} (h : PhaseA scripts s) {i : Nat} {th : Thread}
    (hi : s.threads[i]? = some th) (s' : State) (th' : Thread) (hth : s'.threads = s.threads.set i th')
    (hsub : s'.sN = true ∧ s'.sE = true ∧ s'.sC = true)
    (hterm : termCount s'.log = 0)
    (hlen : s'.live.length = s.live.length ∧ s'.iN.length = s.iN.length ∧ s'.iC.length = s.iC.length)
    (hframe : ∀ j, j ≠ i → Conc.Sctl.get s'.iN j = Conc.Sctl.get s.iN j ∧
      Conc.Sctl.get s'.iC j = Conc.Sctl.get s.iC j ∧ Conc.Sctl.get s'.live j = Conc.Sctl.get s.live j)
    (hne : scripts ≠ [] → allFalse s'.live = false)
    (hloc : LocalNA s' i th') : PhaseA scripts s' := by
  have hlt : i < s.threads.length := (List.getElem?_eq_some_iff.mp hi).1
  refine ⟨by rw [hth, List.length_set]; exact h.lenT, by rw [hlen.1]; exact h.lenL, by rw [hlen.2.1]; exact h.lenN,
    by rw [hlen.2.2]; exact h.lenC, hsub, hterm, hne, ?_⟩
  intro j tj hj
  rw [hth, List.getElem?_set] at hj
  by_cases hij : i = j
  · subst hij; simp [hlt] at hj; subst hj; exact hloc
  · simp [hij] at hj
    have hl := h.loc j tj hj
    obtain ⟨f1, f2, f3⟩ := hframe j (Ne.symm hij)
    exact ⟨hl.inA, hl.termOk, hl.finOk, by rw [f1]; exact hl.nN, by rw [f2]; exact hl.nC, by rw [f3]; exact hl.nL,
      hl.head, hl.nfin, hl.tp, hl.finNone, hl.noUnsub⟩

theorem phaseB_update {s : State} {a : Nat} (h : PhaseB s a) {th : Thread}
    (hi : s.threads[a]? = some th) (s' : State) (th' : Thread) (hth : s'.threads = s.threads.set a th')
    (hloc : LocalNB s' a th') : PhaseB s' a := by
  have hlt : a < s.threads.length := (List.getElem?_eq_some_iff.mp hi).1
  refine ⟨⟨th', by rw [hth, List.getElem?_set]; simp [hlt], hloc⟩, ?_⟩
  intro j tj hja hj
  rw [hth, List.getElem?_set] at hj
  simp [Ne.symm hja] at hj
  exact h.others j tj hja hj

/- ===================== part e ===================== -/
open Rx Rx.Conc.Sctl

macro "grindN" : tactic => `(tactic| (
  (try simp only [State.upd, State.isSub]) <;>
  grind [Term.isC, Pc.inA, Pc.termOk, Pc.needN, Pc.needC, Pc.needL, Pc.nHead, Pc.nPhase, Pc.termPhase, Pc.stageB,
    get_set_self, get_set_ne, List.length_set, termCount_append, termCount_append_term, Ev.isTerminal]))

theorem localNA_dead {s : State} {j : Nat} {tj : Thread} (hl : LocalNA s j tj)
    (hg : Conc.Sctl.get s.live j = false) : tj = { todo := [], fin := none, unsub := false, pc := .idle } := by
  obtain ⟨l1, l2, l3, l4, l5, l6, l7, l8, l9, l10, l11⟩ := hl
  have hf : tj.fin = none := by
    cases hfin : tj.fin with
    | none => rfl
    | some t => have := l6.mpr (Or.inl (by simp [hfin])); rw [hg] at this; cases this
  have hnl : Pc.needL tj.pc = false := by
    cases hn : Pc.needL tj.pc with
    | false => rfl
    | true => have := l6.mpr (Or.inr hn); rw [hg] at this; cases this
  have hpc : tj.pc = .idle := by
    cases hp : tj.pc <;> simp [hp, Pc.inA, Pc.needL, Pc.nPhase] at l1 hnl l8 <;> first | rfl | exact absurd hf l8
  cases tj
  simp_all

macro "tailA" hs:ident he:ident hC:ident hP:ident hi:ident : tactic => `(tactic| (
  simp only [Option.some.injEq] at $hs:ident; subst $hs:ident
  refine ⟨conserv_update $hC $hi _ _ rfl (.same rfl rfl), phase_of_A $he ?_⟩
  refine phaseA_update $hP $hi _ _ rfl ?_ ?_ ?_ ?_ ?_ ⟨?_, ?_, ?_, ?_, ?_, ?_, ?_, ?_, ?_, ?_, ?_⟩ <;> grindN))

set_option hygiene false in
macro "setupA" : tactic => `(tactic| (
  unfold step at hs
  simp only [hi, hpc] at hs
  have hlt : l.tid < s.threads.length := (List.getElem?_eq_some_iff.mp hi).1
  have hltN : l.tid < s.iN.length := by rw [hP.lenN, ← hP.lenT]; exact hlt
  have hltC : l.tid < s.iC.length := by rw [hP.lenC, ← hP.lenT]; exact hlt
  have hltL : l.tid < s.live.length := by rw [hP.lenL, ← hP.lenT]; exact hlt
  obtain ⟨hsN, hsE, hsC⟩ := hP.sub
  have hnt := hP.noTerm
  have hnE := hP.nonEmpty
  have hC := h.conserv
  obtain ⟨l1, l2, l3, l4, l5, l6, l7, l8, l9, l10, l11⟩ := hP.loc _ _ hi
  simp only [hpc] at l1 l2 l4 l5 l6 l7 l8 l9))

section
variable {scripts : List Script} {s s' : State} {l : Label} {th : Thread}

theorem stepA_idle (h : InvN scripts s) (he : s.emptyObs = []) (hP : PhaseA scripts s)
    (hi : s.threads[l.tid]? = some th) (hpc : th.pc = .idle) (hs : step s l = some s') : InvN scripts s' := by
  setupA
  split at hs
  · tailA hs he hC hP hi
  · tailA hs he hC hP hi
  · simp [l11] at hs

theorem stepA_nFetchI (h : InvN scripts s) (he : s.emptyObs = []) (hP : PhaseA scripts s)
    (hi : s.threads[l.tid]? = some th) (hpc : th.pc = .nFetchI) (hs : step s l = some s') : InvN scripts s' := by
  setupA
  have hin : Conc.Sctl.get s.iN l.tid = true := l4 (Or.inl (l8 rfl))
  simp only [hin, if_true] at hs
  tailA hs he hC hP hi

theorem stepA_nSub (h : InvN scripts s) (he : s.emptyObs = []) (hP : PhaseA scripts s)
    (hi : s.threads[l.tid]? = some th) (hpc : th.pc = .nSub) (hs : step s l = some s') : InvN scripts s' := by
  setupA
  have hsub : s.isSub = true := by simp [State.isSub, hsN, hsE, hsC]
  simp only [hsub, if_true] at hs
  tailA hs he hC hP hi

theorem stepA_nFetch (h : InvN scripts s) (he : s.emptyObs = []) (hP : PhaseA scripts s)
    (hi : s.threads[l.tid]? = some th) (hpc : th.pc = .nFetch) (hs : step s l = some s') : InvN scripts s' := by
  setupA
  simp only [hsN, if_true] at hs
  tailA hs he hC hP hi

theorem stepA_nStart (h : InvN scripts s) (he : s.emptyObs = []) (hP : PhaseA scripts s)
    (hi : s.threads[l.tid]? = some th) (hpc : th.pc = .nStart) (hs : step s l = some s') : InvN scripts s' := by
  setupA
  have hne := l7 rfl
  obtain ⟨x, r, hxr⟩ : ∃ x r, th.todo = x :: r := by
    cases h : th.todo with
    | nil => exact absurd h hne
    | cons x r => exact ⟨x, r, rfl⟩
  simp only [hxr, logNext, List.tail_cons] at hs
  simp only [Option.some.injEq] at hs; subst hs
  refine ⟨conserv_update hC hi _ _ rfl (.next x r hxr rfl rfl), phase_of_A he ?_⟩
  refine phaseA_update hP hi _ _ rfl ?_ ?_ ?_ ?_ ?_ ⟨?_, ?_, ?_, ?_, ?_, ?_, ?_, ?_, ?_, ?_, ?_⟩ <;> grindN

theorem stepA_nCb (h : InvN scripts s) (he : s.emptyObs = []) (hP : PhaseA scripts s)
    (hi : s.threads[l.tid]? = some th) (hpc : th.pc = .nCb) (hs : step s l = some s') : InvN scripts s' := by
  setupA
  tailA hs he hC hP hi

theorem stepA_tClaimI {t : Term} (h : InvN scripts s) (he : s.emptyObs = []) (hP : PhaseA scripts s)
    (hi : s.threads[l.tid]? = some th) (hpc : th.pc = .tClaimI t) (hs : step s l = some s') : InvN scripts s' := by
  setupA
  have hin : Conc.Sctl.get s.iN l.tid = true := l4 (Or.inr rfl)
  simp only [hin, if_true] at hs
  tailA hs he hC hP hi

theorem stepA_tClrI {t : Term} (h : InvN scripts s) (he : s.emptyObs = []) (hP : PhaseA scripts s)
    (hi : s.threads[l.tid]? = some th) (hpc : th.pc = .tClrI t) (hs : step s l = some s') : InvN scripts s' := by
  setupA
  have ht : t.isC = true := l2
  simp only [ht, if_true] at hs
  tailA hs he hC hP hi

theorem stepA_tTakeI {t : Term} (h : InvN scripts s) (he : s.emptyObs = []) (hP : PhaseA scripts s)
    (hi : s.threads[l.tid]? = some th) (hpc : th.pc = .tTakeI t) (hs : step s l = some s') : InvN scripts s' := by
  setupA
  have ht : t.isC = true := l2
  have hic : Conc.Sctl.get s.iC l.tid = true := l5 (Or.inr rfl)
  simp only [ht, hic, if_true] at hs
  tailA hs he hC hP hi

theorem stepA_tSub {t : Term} (h : InvN scripts s) (he : s.emptyObs = []) (hP : PhaseA scripts s)
    (hi : s.threads[l.tid]? = some th) (hpc : th.pc = .tSub t) (hs : step s l = some s') : InvN scripts s' := by
  setupA
  have ht : t.isC = true := l2
  have hsub : s.isSub = true := by simp [State.isSub, hsN, hsE, hsC]
  simp only [ht, hsub, if_true] at hs
  tailA hs he hC hP hi

theorem stepA_cRemove (h : InvN scripts s) (he : s.emptyObs = []) (hP : PhaseA scripts s)
    (hi : s.threads[l.tid]? = some th) (hpc : th.pc = .cRemove) (hs : step s l = some s') : InvN scripts s' := by
  setupA
  split at hs
  · by_cases hall : allFalse (s.live.set l.tid false) = true
    · simp only [hall, if_true] at hs
      simp only [Option.some.injEq] at hs; subst hs
      refine ⟨conserv_update hC hi _ _ rfl (.same rfl rfl), phase_of_B (a := l.tid) (by simp [State.upd, he]) ?_⟩
      refine ⟨⟨{ th with pc := .tClaim .complete }, by simp [State.upd, hlt], ⟨?_, ?_, ?_, ?_, ?_, ?_, ?_, ?_, ?_⟩⟩, ?_⟩
      · simp [Pc.stageB]
      · simp [Pc.termOk, Term.isC]
      · exact (l9 rfl).1
      · exact (l9 rfl).2
      · exact l11
      · intro _; exact ⟨hsN, hsE, hsC, hnt⟩
      · simp [Pc.stageB]
      · simp [Pc.stageB]
      · simp [Pc.stageB]
      · intro j tj hja hj
        simp only [State.upd, List.getElem?_set, Ne.symm hja, if_false] at hj
        have hg : Conc.Sctl.get s.live j = false := by
          have := allFalse_get hall j
          rwa [get_set_ne _ _ hja] at this
        exact localNA_dead (hP.loc j tj hj) hg
    · simp only [hall] at hs
      simp only [Option.some.injEq] at hs; subst hs
      refine ⟨conserv_update hC hi _ _ rfl (.same rfl rfl), phase_of_A he ?_⟩
      refine phaseA_update hP hi _ _ rfl ?_ ?_ ?_ ?_ ?_ ⟨?_, ?_, ?_, ?_, ?_, ?_, ?_, ?_, ?_, ?_, ?_⟩ <;> grindN
  · cases hs

theorem invN_stepA (h : InvN scripts s) (he : s.emptyObs = [])
    (hP : PhaseA scripts s) (hs : step s l = some s') : InvN scripts s' := by
  cases hi : s.threads[l.tid]? with
  | none => simp [step, hi] at hs
  | some th =>
    have hinA := (hP.loc _ _ hi).inA
    cases hpc : th.pc <;> simp only [hpc, Pc.inA] at hinA <;> try (cases hinA; done)
    · exact stepA_idle h he hP hi hpc hs
    · exact stepA_nFetchI h he hP hi hpc hs
    · exact stepA_nSub h he hP hi hpc hs
    · exact stepA_nFetch h he hP hi hpc hs
    · exact stepA_nStart h he hP hi hpc hs
    · exact stepA_nCb h he hP hi hpc hs
    · exact stepA_tClaimI h he hP hi hpc hs
    · exact stepA_tClrI h he hP hi hpc hs
    · exact stepA_tTakeI h he hP hi hpc hs
    · exact stepA_tSub h he hP hi hpc hs
    · exact stepA_cRemove h he hP hi hpc hs

end

/- ===================== part f ===================== -/
open Rx Rx.Conc.Sctl

macro "tailB" hs:ident he:ident hC:ident hP:ident hi:ident : tactic => `(tactic| (
  simp only [Option.some.injEq] at $hs:ident; subst $hs:ident
  refine ⟨conserv_update $hC $hi _ _ rfl (.same rfl rfl), phase_of_B (by simpa [State.upd] using $he) ?_⟩
  refine phaseB_update $hP $hi _ _ rfl ⟨?_, ?_, ?_, ?_, ?_, ?_, ?_, ?_, ?_⟩ <;> grindN))

set_option hygiene false in
macro "setupB" : tactic => `(tactic| (
  unfold step at hs
  simp only [hi, hpc] at hs
  have hC := h.conserv
  obtain ⟨b1, b2, b3, b4, b9, b5, b6, b8, b7⟩ := hl
  simp only [hpc] at b1 b2 b5 b6 b7 b8))

section
variable {scripts : List Script} {s s' : State} {l : Label} {th : Thread}

theorem stepB_tClaim {t : Term} (h : InvN scripts s) (he : s.emptyObs = [l.tid]) (hP : PhaseB s l.tid)
    (hi : s.threads[l.tid]? = some th) (hl : LocalNB s l.tid th) (hpc : th.pc = .tClaim t)
    (hs : step s l = some s') : InvN scripts s' := by
  setupB
  have hn : s.sN = true := (b5 rfl).1
  simp only [hn, if_true] at hs
  tailB hs he hC hP hi

theorem stepB_tClr {t : Term} (h : InvN scripts s) (he : s.emptyObs = [l.tid]) (hP : PhaseB s l.tid)
    (hi : s.threads[l.tid]? = some th) (hl : LocalNB s l.tid th) (hpc : th.pc = .tClr t)
    (hs : step s l = some s') : InvN scripts s' := by
  setupB
  have ht : t.isC = true := b2
  simp only [ht, if_true] at hs
  tailB hs he hC hP hi

theorem stepB_tTake {t : Term} (h : InvN scripts s) (he : s.emptyObs = [l.tid]) (hP : PhaseB s l.tid)
    (hi : s.threads[l.tid]? = some th) (hl : LocalNB s l.tid th) (hpc : th.pc = .tTake t)
    (hs : step s l = some s') : InvN scripts s' := by
  setupB
  have ht : t.isC = true := b2
  have hc : s.sC = true := (b6 (Or.inr rfl)).2.1
  simp only [ht, hc, if_true] at hs
  tailB hs he hC hP hi

theorem stepB_tStart {t : Term} (h : InvN scripts s) (he : s.emptyObs = [l.tid]) (hP : PhaseB s l.tid)
    (hi : s.threads[l.tid]? = some th) (hl : LocalNB s l.tid th) (hpc : th.pc = .tStart t)
    (hs : step s l = some s') : InvN scripts s' := by
  setupB
  have ht : t.isC = true := b2
  have htc : t = .complete := by cases t <;> simp_all [Term.isC]
  subst htc
  simp only [Option.some.injEq] at hs; subst hs
  refine ⟨conserv_update hC hi _ _ rfl (.term .complete rfl rfl), phase_of_B (by simpa [State.upd] using he) ?_⟩
  refine phaseB_update hP hi _ _ rfl ⟨?_, ?_, ?_, ?_, ?_, ?_, ?_, ?_, ?_⟩
  · simp [Pc.stageB]
  · simp [Pc.termOk, Term.isC]
  · exact b3
  · exact b4
  · exact b9
  · simp [Pc.stageB]
  · simp [Pc.stageB]
  · simp [Pc.stageB]
  · intro _
    exact ⟨(b8 rfl).1, by simp [State.upd, Term.ev]⟩

theorem stepB_tCb {t : Term} (h : InvN scripts s) (he : s.emptyObs = [l.tid]) (hP : PhaseB s l.tid)
    (hi : s.threads[l.tid]? = some th) (hl : LocalNB s l.tid th) (hpc : th.pc = .tCb t)
    (hs : step s l = some s') : InvN scripts s' := by
  setupB
  tailB hs he hC hP hi

theorem stepB_fLock (h : InvN scripts s) (he : s.emptyObs = [l.tid]) (hP : PhaseB s l.tid)
    (hi : s.threads[l.tid]? = some th) (hl : LocalNB s l.tid th) (hpc : th.pc = .fLock)
    (hs : step s l = some s') : InvN scripts s' := by
  setupB
  tailB hs he hC hP hi

theorem stepB_fPick {pend : List Nat} (h : InvN scripts s) (he : s.emptyObs = [l.tid]) (hP : PhaseB s l.tid)
    (hi : s.threads[l.tid]? = some th) (hl : LocalNB s l.tid th) (hpc : th.pc = .fPick pend)
    (hs : step s l = some s') : InvN scripts s' := by
  setupB
  split at hs
  · tailB hs he hC hP hi
  · split at hs
    · tailB hs he hC hP hi
    · cases hs

theorem stepB_fU1 {pend : List Nat} {j : Nat} (h : InvN scripts s) (he : s.emptyObs = [l.tid]) (hP : PhaseB s l.tid)
    (hi : s.threads[l.tid]? = some th) (hl : LocalNB s l.tid th) (hpc : th.pc = .fU1 pend j)
    (hs : step s l = some s') : InvN scripts s' := by
  setupB
  tailB hs he hC hP hi

theorem stepB_fU2 {pend : List Nat} {j : Nat} (h : InvN scripts s) (he : s.emptyObs = [l.tid]) (hP : PhaseB s l.tid)
    (hi : s.threads[l.tid]? = some th) (hl : LocalNB s l.tid th) (hpc : th.pc = .fU2 pend j)
    (hs : step s l = some s') : InvN scripts s' := by
  setupB
  tailB hs he hC hP hi

theorem stepB_fU3 {pend : List Nat} {j : Nat} (h : InvN scripts s) (he : s.emptyObs = [l.tid]) (hP : PhaseB s l.tid)
    (hi : s.threads[l.tid]? = some th) (hl : LocalNB s l.tid th) (hpc : th.pc = .fU3 pend j)
    (hs : step s l = some s') : InvN scripts s' := by
  setupB
  tailB hs he hC hP hi

theorem stepB_fClear (h : InvN scripts s) (he : s.emptyObs = [l.tid]) (hP : PhaseB s l.tid)
    (hi : s.threads[l.tid]? = some th) (hl : LocalNB s l.tid th) (hpc : th.pc = .fClear)
    (hs : step s l = some s') : InvN scripts s' := by
  setupB
  split at hs
  · tailB hs he hC hP hi
  · cases hs

theorem stepB_fSub (h : InvN scripts s) (he : s.emptyObs = [l.tid]) (hP : PhaseB s l.tid)
    (hi : s.threads[l.tid]? = some th) (hl : LocalNB s l.tid th) (hpc : th.pc = .fSub)
    (hs : step s l = some s') : InvN scripts s' := by
  setupB
  have hn : s.sN = false := (b7 rfl).1
  have hsub : s.isSub = false := by simp [State.isSub, hn]
  simp only [hsub] at hs
  tailB hs he hC hP hi

theorem stepB_fOnFin (h : InvN scripts s) (he : s.emptyObs = [l.tid]) (hP : PhaseB s l.tid)
    (hi : s.threads[l.tid]? = some th) (hl : LocalNB s l.tid th) (hpc : th.pc = .fOnFin)
    (hs : step s l = some s') : InvN scripts s' := by
  setupB
  tailB hs he hC hP hi

theorem invN_stepB {a : Nat} (h : InvN scripts s) (he : s.emptyObs = [a])
    (hP : PhaseB s a) (hs : step s l = some s') : InvN scripts s' := by
  cases hi : s.threads[l.tid]? with
  | none => simp [step, hi] at hs
  | some th =>
    by_cases hla : l.tid = a
    · subst hla
      obtain ⟨th0, hi0, hl⟩ := hP.own
      rw [hi] at hi0; cases hi0
      have hinB := hl.inB
      cases hpc : th.pc <;> simp only [hpc, Pc.stageB] at hinB <;> try (exact absurd rfl hinB)
      · exfalso
        have h1 := hl.todo
        have h2 := hl.fin
        have h3 := hl.noUnsub
        simp [step, hi, hpc, h1, h2, h3] at hs
      · exact stepB_tClaim h he hP hi hl hpc hs
      · exact stepB_tClr h he hP hi hl hpc hs
      · exact stepB_tTake h he hP hi hl hpc hs
      · exact stepB_tStart h he hP hi hl hpc hs
      · exact stepB_tCb h he hP hi hl hpc hs
      · exact stepB_fLock h he hP hi hl hpc hs
      · exact stepB_fPick h he hP hi hl hpc hs
      · exact stepB_fU1 h he hP hi hl hpc hs
      · exact stepB_fU2 h he hP hi hl hpc hs
      · exact stepB_fU3 h he hP hi hl hpc hs
      · exact stepB_fClear h he hP hi hl hpc hs
      · exact stepB_fSub h he hP hi hl hpc hs
      · exact stepB_fOnFin h he hP hi hl hpc hs
    · exfalso
      have := hP.others l.tid th hla hi
      subst this
      simp [step, hi] at hs

theorem invN_step (h : InvN scripts s) (hs : step s l = some s') : InvN scripts s' := by
  have hp := h.phase
  unfold Phase at hp
  split at hp
  · rename_i he; exact invN_stepA h he hp hs
  · rename_i a he; exact invN_stepB h he hp hs
  · exact hp.elim

end

/- ===================== part g ===================== -/
open Rx Rx.Conc.Sctl

theorem get_replicate_true_lt {n i : Nat} (h : i < n) : Conc.Sctl.get (List.replicate n true) i = true := by
  unfold Conc.Sctl.get
  rw [List.getElem?_replicate]
  simp [h]

theorem exists_get_of_not_allFalse {l : List Bool} (h : allFalse l = false) :
    ∃ j, j < l.length ∧ Conc.Sctl.get l j = true := by
  apply Classical.byContradiction
  intro hno
  have : allFalse l = true := by
    apply allFalse_of_get
    intro i hi
    cases hg : Conc.Sctl.get l i with
    | false => rfl
    | true => exact absurd ⟨i, hi, hg⟩ hno
  rw [this] at h; cases h

theorem invN_init {scripts : List Script} (hne : ∀ sc ∈ scripts, sc.err = none)
    (hnu : ∀ sc ∈ scripts, sc.unsub = false) : InvN scripts (init scripts) := by
  refine ⟨conserv_init hnu, phase_of_A rfl ?_⟩
  refine ⟨by simp [init], by simp [init], by simp [init], by simp [init], ⟨rfl, rfl, rfl⟩, by simp [init, termCount],
    ?_, ?_⟩
  · intro hs
    cases scripts with
    | nil => exact absurd rfl hs
    | cons a t => simp [init, allFalse, hnu a (List.mem_cons_self)]
  · intro i th hi
    obtain ⟨sc, hsc, rfl⟩ := init_thread hi
    have hu : sc.unsub = false := hnu sc (List.mem_of_getElem? hsc)
    have hterm : sc.term.isC = true := by
      have := hne sc (List.mem_of_getElem? hsc)
      simp [Script.term, this, Term.isC]
    obtain ⟨hl1, hl2, hl3⟩ := init_live hsc
    simp only [hu, Bool.not_false] at hl1 hl2 hl3
    refine ⟨rfl, rfl, ?_, ?_, ?_, ?_, ?_, ?_, ?_, ?_, ?_⟩
    · intro t ht; simp [Script.thread, hu] at ht; subst ht; exact hterm
    · intro _; exact hl2
    · intro _; exact hl3
    · simp [hl1, Script.thread, hu]
    · simp [Script.thread, Pc.nHead]
    · simp [Script.thread, Pc.nPhase]
    · simp [Script.thread, Pc.termPhase]
    · simp [Script.thread, hu]
    · simp [Script.thread, hu]

theorem invN_reachable {scripts : List Script} (hne : ∀ sc ∈ scripts, sc.err = none)
    (hnu : ∀ sc ∈ scripts, sc.unsub = false) {s : State}
    (h : Reachable scripts s) : InvN scripts s := by
  induction h with
  | init => exact invN_init hne hnu
  | step _ hs ih => exact invN_step ih hs

/-- **last_one_out, uniqueness.**  If no input fails (and nobody unsubscribes), at most one input thread ever observes `len()==0` in
    `sink_complete` (under the single write lock of `unscribers`), whatever the interleaving. -/
theorem last_one_out_unique {scripts : List Script} (hne : ∀ sc ∈ scripts, sc.err = none)
    (hnu : ∀ sc ∈ scripts, sc.unsub = false) {s : State}
    (h : Reachable scripts s) : s.emptyObs.length ≤ 1 := by
  have hp := (invN_reachable hne hnu h).phase
  unfold Phase at hp
  split at hp
  · rename_i he; simp [he]
  · rename_i a he; simp [he]
  · exact hp.elim

/-- **merge, safety at every moment.**  If no input fails then in EVERY reachable state (not only at the end) the items
    delivered on behalf of input `i`, in delivery order, followed by the items input `i` has not handed over yet, are
    exactly input `i`'s items: nothing lost, nothing duplicated, nothing reordered within an input; and the multiset of
    delivered plus pending items is the multiset of all inputs' items. -/
theorem merge_prefix {scripts : List Script} (hne : ∀ sc ∈ scripts, sc.err = none)
    (hnu : ∀ sc ∈ scripts, sc.unsub = false) {s : State} (h : Reachable scripts s) :
    (∀ (i : Nat) (th : Thread) (sc : Script), s.threads[i]? = some th → scripts[i]? = some sc →
      proj i s.log ++ th.todo = sc.items) ∧
    (items s.log ++ s.threads.flatMap (·.todo)).Perm (scripts.flatMap (·.items)) :=
  ⟨(invN_reachable hne hnu h).conserv.each, (invN_reachable hne hnu h).conserv.perm⟩

theorem finished_eq {th : Thread} (h : th.finished = true) :
    th = { todo := [], fin := none, unsub := false, pc := .idle } := by
  cases th with
  | mk todo fin unsub pc =>
    simp [Thread.finished] at h
    obtain ⟨⟨⟨h1, h2⟩, h3⟩, h4⟩ := h
    cases fin with
    | none => simp [h1, h2, h4]
    | some t => simp at h3

theorem flatMap_todo_nil {ths : List Thread} (h : ∀ th ∈ ths, th.todo = []) : ths.flatMap (·.todo) = [] := by
  induction ths with
  | nil => rfl
  | cons t ts ih =>
    simp only [List.flatMap_cons, h t (List.mem_cons_self), List.nil_append]
    exact ih fun th hth => h th (List.mem_cons_of_mem _ hth)

/-- **merge_conserves.**  For ALL scripts without error (and without a concurrent unsubscribe), ALL numbers of inputs and ALL interleavings: once every input
    thread has finished,
    * the items delivered on behalf of input `i` are exactly input `i`'s items, in that input's order;
    * the delivered items are a permutation of (multiset-equal to) all inputs' items;
    * (at least one input) the log is `nexts ++ [complete]`: exactly one `complete`, it is the last event, no error. -/
theorem merge_conserves {scripts : List Script} (hne : ∀ sc ∈ scripts, sc.err = none)
    (hnu : ∀ sc ∈ scripts, sc.unsub = false) {s : State} (h : Reachable scripts s) (hd : s.allDone = true) :
    (∀ (i : Nat) (sc : Script), scripts[i]? = some sc → proj i s.log = sc.items) ∧
    (items s.log).Perm (scripts.flatMap (·.items)) ∧
    (scripts ≠ [] → ∃ a pre, s.log = pre ++ [(a, Ev.complete)] ∧ ∀ p ∈ pre, p.2.isTerminal = false) := by
  have hN := invN_reachable hne hnu h
  have hfin : ∀ th ∈ s.threads, th = { todo := [], fin := none, unsub := false, pc := .idle } := by
    intro th hth
    exact finished_eq (List.all_eq_true.mp hd th hth)
  have hp := hN.phase
  unfold Phase at hp
  have hperm : (items s.log).Perm (scripts.flatMap (·.items)) := by
    have := hN.conserv.perm
    rwa [flatMap_todo_nil (fun th hth => by rw [hfin th hth]), List.append_nil] at this
  split at hp
  · -- phase A: only possible without inputs
    rename_i he
    have hnil : scripts = [] := by
      apply Classical.byContradiction
      intro hs
      obtain ⟨j, hj, hg⟩ := exists_get_of_not_allFalse (hp.nonEmpty hs)
      have hjt : j < s.threads.length := by rw [hp.lenT, ← hp.lenL]; exact hj
      have hth : s.threads[j]? = some s.threads[j] := List.getElem?_eq_getElem hjt
      have hl := hp.loc j _ hth
      have hf := hfin _ (List.getElem_mem hjt)
      have := hl.nL.mp hg
      rw [hf] at this
      simp [Pc.needL] at this
    subst hnil
    exact ⟨fun i sc hsc => by simp at hsc, hperm, fun hs => absurd rfl hs⟩
  · rename_i a he
    refine ⟨?_, hperm, fun _ => ?_⟩
    · intro i sc hsc
      have hlen : s.threads.length = scripts.length := hN.conserv.len
      have hlt : i < s.threads.length := by rw [hlen]; exact (List.getElem?_eq_some_iff.mp hsc).1
      have hth : s.threads[i]? = some s.threads[i] := List.getElem?_eq_getElem hlt
      have := hN.conserv.each i _ sc hth hsc
      rw [hfin _ (List.getElem_mem hlt)] at this
      simpa using this
    · obtain ⟨tha, hia, hl⟩ := hp.own
      have hf := hfin tha (List.mem_of_getElem? hia)
      have h4 := hl.st4 (by rw [hf]; rfl)
      have hmem : (a, Ev.complete) ∈ s.log := List.mem_of_getLast? h4.2
      obtain ⟨_, pre, hpre, hnt⟩ := last_one_out h a hmem
      exact ⟨a, pre, hpre, hnt⟩
  · exact hp.elim

/- ===================== part h ===================== -/
open Rx Rx.Conc Rx.Conc.Sctl

/-! ## take(n) -/

theorem countP_set_eq {α : Type} (p : α → Bool) {l : List α} {i : Nat} {a a' : α} (hi : l[i]? = some a) :
    (l.set i a').countP p + (if p a then 1 else 0) = l.countP p + (if p a' then 1 else 0) := by
  obtain ⟨hlt, rfl⟩ := List.getElem?_eq_some_iff.mp hi
  rw [List.countP_set hlt]
  have : (if p l[i] = true then 1 else 0) ≤ List.countP p l := by
    split
    · rename_i h
      exact List.countP_pos_iff.mpr ⟨l[i], List.getElem_mem hlt, h⟩
    · omega
  omega

theorem items_length_logNext (log : List (Nat × Ev)) (i : Nat) (todo : List Data) :
    (items (logNext log i todo)).length = (items log).length + (if todo = [] then 0 else 1) := by
  cases todo with
  | nil => simp [logNext]
  | cons x r => simp [logNext, items_append_next]

theorem items_append_complete (log : List (Nat × Ev)) (i : Nat) :
    items (log ++ [(i, Ev.complete)]) = items log := items_append_term log i .complete

theorem termCount_append_complete (log : List (Nat × Ev)) (i : Nat) :
    termCount (log ++ [(i, Ev.complete)]) = termCount log + 1 := termCount_append_term log i .complete

namespace TakeP
open Rx.Conc.Take

/-- claimed the subscriber's fn_next, complete callback not started -/
def pre : Take.Pc → Bool
  | .tClr _ | .tTake _ | .tStart _ => true
  | .idle | .fetchI | .count | .sub _ | .fetch _ | .start _ | .cb _ | .abort1 | .abort2 | .claimI | .tSub _ | .cRemove _
  | .tClaim _ | .tCb _ | .fin1 _ | .fin2 => false

/-- holds an emit permit (`emit == true` decided under the counter lock) that has not been used yet -/
def permit : Take.Pc → Bool
  | .sub _ | .fetch _ | .start _ => true
  | .idle | .fetchI | .count | .cb _ | .abort1 | .abort2 | .claimI | .tSub _ | .cRemove _
  | .tClaim _ | .tClr _ | .tTake _ | .tStart _ | .tCb _ | .fin1 _ | .fin2 => false

structure Inv (count : Nat) (s : Take.State) : Prop where
  cst : s.count = count
  cnt : s.threads.countP (fun th => pre th.pc) + termCount s.log ≤ (if s.sN then 0 else 1)
  emit : (items s.log).length + s.threads.countP (fun th => permit th.pc) ≤ min s.ctr s.count

theorem inv_update {count : Nat} {s : Take.State} (h : Inv count s) {i : Nat} {th : Take.Thread}
    (hi : s.threads[i]? = some th) (s' : Take.State) (th' : Take.Thread) (hth : s'.threads = s.threads.set i th')
    (hcst : s'.count = s.count)
    (hcnt : (if pre th'.pc then 1 else 0) + termCount s'.log + (if s.sN then 0 else 1)
        ≤ (if s'.sN then 0 else 1) + (if pre th.pc then 1 else 0) + termCount s.log)
    (hemit : (items s'.log).length + (if permit th'.pc then 1 else 0) + min s.ctr s.count
        ≤ (items s.log).length + (if permit th.pc then 1 else 0) + min s'.ctr s'.count) :
    Inv count s' := by
  refine ⟨hcst.trans h.cst, ?_, ?_⟩
  · rw [hth]
    have h1 := countP_set_eq (fun th : Take.Thread => pre th.pc) (a' := th') hi
    have h2 := h.cnt
    omega
  · rw [hth]
    have h1 := countP_set_eq (fun th : Take.Thread => permit th.pc) (a' := th') hi
    have h2 := h.emit
    omega

macro "dischT" h:ident hi:ident : tactic => `(tactic| (
  refine inv_update $h $hi _ _ rfl ?_ ?_ ?_ <;>
  (try simp only [Take.State.upd, Take.State.isSub]) <;>
  grind [pre, permit, items_length_logNext, termCount_append_next, items_append_complete, termCount_append_complete]))

theorem inv_step {count : Nat} {s s' : Take.State} {i : Nat} (h : Inv count s) (hs : Take.step s i = some s') :
    Inv count s' := by
  unfold Take.step at hs
  cases hi : s.threads[i]? with
  | none => simp [hi] at hs
  | some th =>
    simp only [hi] at hs
    have hc := h.cnt
    have he := h.emit
    cases hpc : th.pc <;> simp only [hpc] at hs
    case idle =>
      split at hs
      · simp only [Option.some.injEq] at hs; subst hs; dischT h hi
      · simp only [Option.some.injEq] at hs; subst hs; dischT h hi
      · cases hs
    all_goals (simp only [Option.some.injEq] at hs; subst hs; dischT h hi)

theorem inv_init (count : Nat) (scripts : List (List Data × Bool)) : Inv count (Take.init count scripts) := by
  refine ⟨rfl, ?_, ?_⟩
  · have : (Take.init count scripts).threads.countP (fun th => pre th.pc) = 0 := by
      simp [Take.init, List.countP_eq_zero, pre]
    rw [this]; simp [Take.init, termCount]
  · have : (Take.init count scripts).threads.countP (fun th => permit th.pc) = 0 := by
      simp [Take.init, List.countP_eq_zero, permit]
    rw [this]; simp [Take.init, items]

theorem inv_reachable {count : Nat} {scripts : List (List Data × Bool)} {s : Take.State}
    (h : Take.Reachable count scripts s) : Inv count s := by
  induction h with
  | init => exact inv_init count scripts
  | step _ hs ih => exact inv_step ih hs

end TakeP

/-- **take_at_most_n.**  For every `count`, any number of upstream threads offering any items (with or without an
    upstream `complete`), under every interleaving: the number of `next` callbacks started at the subscriber never
    exceeds `count`. (The decision `nn < count` is taken under the counter's write lock; the emission happens outside.) -/
theorem take_at_most_n {count : Nat} {scripts : List (List Data × Bool)} {s : Take.State}
    (h : Take.Reachable count scripts s) : (items s.log).length ≤ count := by
  have hI := TakeP.inv_reachable h
  have h1 := hI.emit
  have h2 := hI.cst
  omega

/-- take: at most one terminal callback ever starts (count-triggered completes and an upstream complete may race) -/
theorem take_never_two_terminals {count : Nat} {scripts : List (List Data × Bool)} {s : Take.State}
    (h : Take.Reachable count scripts s) : (s.log.filter fun p => p.2.isTerminal).length ≤ 1 := by
  have hc := (TakeP.inv_reachable h).cnt
  rw [← List.countP_eq_length_filter]
  unfold termCount at hc
  split at hc <;> omega

/-! non-vacuity and witnesses for take -/

def takeEx : List (List Data × Bool) := [([.int 1, .int 2], false), ([.int 3, .int 4], true)]

/-- a run of take(2) fed by two threads that delivers exactly 2 items and one complete -/
example : ∃ s, Take.Reachable 2 takeEx s ∧ s.log = [(0, .next (.int 1)), (1, .next (.int 3)), (1, .complete)] :=
  ⟨_, Take.reachable_of_run .init (Take.rep 7 0 ++ Take.rep 18 1) _ rfl, by decide +kernel⟩

/-- WITNESS (outside the literal text of C11, but noteworthy): with an upstream that emits from two threads, take(2)
    can start a `next` callback AFTER the `complete` callback started: thread 0 got `nn = 0` and fetched `fn_next`,
    thread 1 got `nn = 1`, emitted and completed, then thread 0's callback starts. -/
theorem take_next_after_complete_possible :
    ∃ s, Take.Reachable 2 takeEx s ∧ s.log = [(1, .next (.int 3)), (1, .complete), (0, .next (.int 1))] :=
  ⟨_, Take.reachable_of_run .init (Take.rep 5 0 ++ Take.rep 18 1 ++ Take.rep 2 0) _ rfl, by decide +kernel⟩

/-- WITNESS: take(2) may deliver FEWER than 2 items although 4 are offered: the item that obtained `nn = 0` is dropped
    because the thread that obtained `nn = 1` completed (and unsubscribed) first. All threads are finished. -/
theorem take_may_lose_item :
    ∃ s, Take.Reachable 2 takeEx s ∧ s.log = [(1, .next (.int 3)), (1, .complete)] ∧
      s.threads.all (fun th => th.pc = .idle && th.todo.isEmpty) = true :=
  ⟨_, Take.reachable_of_run .init (Take.rep 3 0 ++ Take.rep 20 1 ++ Take.rep 4 0) _ rfl, by decide +kernel,
    by decide +kernel⟩

/- ===================== part i ===================== -/
open Rx Rx.Conc Rx.Conc.Sctl

/-! ## amb -/
namespace AmbP
open Rx.Conc.Amb

/-- `is_win` returned true for the call in progress and the delivery has not started yet -/
def won : Amb.Pc → Bool
  | .sub | .fetch | .start | .fSub | .tClaim | .tClr | .tTake | .tStart => true
  | .idle | .fetchI | .win | .cb | .abort1 | .abort2 | .claimI | .winC | .tCb
  | .fLock | .fPick _ | .fU _ _ | .fClear | .fEnd => false

/-- claimed the subscriber's fn_next, complete callback not started -/
def pre : Amb.Pc → Bool
  | .tClr | .tTake | .tStart => true
  | .sub | .fetch | .start | .fSub | .tClaim | .idle | .fetchI | .win | .cb | .abort1 | .abort2 | .claimI | .winC | .tCb
  | .fLock | .fPick _ | .fU _ _ | .fClear | .fEnd => false

structure Inv (s : Amb.State) : Prop where
  cnt : s.threads.countP (fun th => pre th.pc) + termCount s.log ≤ (if s.sN then 0 else 1)
  loc : ∀ (j : Nat) (th : Amb.Thread), s.threads[j]? = some th → won th.pc = true → s.winner = some j
  log : ∀ p ∈ s.log, s.winner = some p.1

theorem mem_logNext {log : List (Nat × Ev)} {i : Nat} {todo : List Data} {p : Nat × Ev}
    (h : p ∈ logNext log i todo) : p ∈ log ∨ p.1 = i := by
  cases todo with
  | nil => exact Or.inl h
  | cons x r =>
    simp only [logNext, List.mem_append, List.mem_singleton] at h
    rcases h with h | h
    · exact Or.inl h
    · exact Or.inr (by rw [h])

theorem inv_update {s : Amb.State} (h : Inv s) {i : Nat} {th : Amb.Thread}
    (hi : s.threads[i]? = some th) (s' : Amb.State) (th' : Amb.Thread) (hth : s'.threads = s.threads.set i th')
    (hw : ∀ w, s.winner = some w → s'.winner = some w)
    (hloc : won th'.pc = true → s'.winner = some i)
    (hlog : ∀ p ∈ s'.log, p ∈ s.log ∨ (p.1 = i ∧ s'.winner = some i))
    (hcnt : (if pre th'.pc then 1 else 0) + termCount s'.log + (if s.sN then 0 else 1)
        ≤ (if s'.sN then 0 else 1) + (if pre th.pc then 1 else 0) + termCount s.log) : Inv s' := by
  have hlt : i < s.threads.length := (List.getElem?_eq_some_iff.mp hi).1
  refine ⟨?_, ?_, ?_⟩
  · rw [hth]
    have h1 := countP_set_eq (fun th : Amb.Thread => pre th.pc) (a' := th') hi
    have h2 := h.cnt
    omega
  · intro j tj hj hwon
    rw [hth, List.getElem?_set] at hj
    by_cases hij : i = j
    · subst hij; simp [hlt] at hj; subst hj; exact hloc hwon
    · simp [hij] at hj; exact hw j (h.loc j tj hj hwon)
  · intro p hp
    rcases hlog p hp with h1 | ⟨h1, h2⟩
    · exact hw _ (h.log p h1)
    · rw [h1]; exact h2

macro "dischAmb" h:ident hi:ident : tactic => `(tactic| (
  refine inv_update $h $hi _ _ rfl ?_ ?_ ?_ ?_ <;>
  (try simp only [Amb.State.upd, Amb.State.isSub]) <;>
  grind [won, pre, Amb.wins, mem_logNext, termCount_append_next, termCount_append_complete]))

theorem inv_step {s s' : Amb.State} {l : Amb.Label} (h : Inv s) (hs : Amb.step s l = some s') : Inv s' := by
  unfold Amb.step at hs
  simp only at hs
  cases hi : s.threads[l.tid]? with
  | none => simp [hi] at hs
  | some th =>
    simp only [hi] at hs
    have hl := h.loc _ _ hi
    cases hpc : th.pc <;> simp only [hpc] at hs hl
    case idle =>
      split at hs
      · simp only [Option.some.injEq] at hs; subst hs; dischAmb h hi
      · simp only [Option.some.injEq] at hs; subst hs; dischAmb h hi
      · cases hs
    case abort1 =>
      split at hs
      · simp only [Option.some.injEq] at hs; subst hs; dischAmb h hi
      · cases hs
    case fClear =>
      split at hs
      · simp only [Option.some.injEq] at hs; subst hs; dischAmb h hi
      · cases hs
    case fPick pend =>
      split at hs
      · simp only [Option.some.injEq] at hs; subst hs; dischAmb h hi
      · split at hs
        · simp only [Option.some.injEq] at hs; subst hs; dischAmb h hi
        · cases hs
    all_goals (simp only [Option.some.injEq] at hs; subst hs; dischAmb h hi)

theorem inv_init (scripts : List (List Data × Bool)) : Inv (Amb.init scripts) := by
  refine ⟨?_, ?_, ?_⟩
  · have : (Amb.init scripts).threads.countP (fun th => pre th.pc) = 0 := by
      simp [Amb.init, List.countP_eq_zero, pre]
    rw [this]; simp [Amb.init, termCount]
  · intro j th hj hw
    simp only [Amb.init, List.getElem?_map] at hj
    cases hsc : scripts[j]? with
    | none => simp [hsc] at hj
    | some sc => simp [hsc] at hj; subst hj; simp [won] at hw
  · intro p hp; simp [Amb.init] at hp

theorem inv_reachable {scripts : List (List Data × Bool)} {s : Amb.State} (h : Amb.Reachable scripts s) : Inv s := by
  induction h with
  | init => exact inv_init scripts
  | step _ hs ih => exact inv_step ih hs

end AmbP

/-- **amb_one_winner.**  For any number of inputs, any items and any interleaving: every event the subscriber receives
    (items and the complete) was delivered on behalf of ONE input — the one recorded in the winner cell — so exactly one
    input is let through. (`is_win` decides under `winner.write()`; the emission happens outside the lock.) -/
theorem amb_one_winner {scripts : List (List Data × Bool)} {s : Amb.State} (h : Amb.Reachable scripts s) :
    (∀ p ∈ s.log, s.winner = some p.1) ∧ (∀ p ∈ s.log, ∀ q ∈ s.log, p.1 = q.1) := by
  have hI := AmbP.inv_reachable h
  refine ⟨hI.log, fun p hp q hq => ?_⟩
  have h1 := hI.log p hp
  have h2 := hI.log q hq
  rw [h1] at h2
  exact Option.some.inj h2

/-- amb: at most one terminal callback ever starts -/
theorem amb_never_two_terminals {scripts : List (List Data × Bool)} {s : Amb.State} (h : Amb.Reachable scripts s) :
    (s.log.filter fun p => p.2.isTerminal).length ≤ 1 := by
  have hc := (AmbP.inv_reachable h).cnt
  rw [← List.countP_eq_length_filter]
  unfold termCount at hc
  split at hc <;> omega

def ambEx : List (List Data × Bool) := [([.int 1, .int 2], true), ([.int 3], true)]

/-- non-vacuity: input 1 claims the winner cell first although input 0 started first; input 0's items are all dropped,
    input 1's item and complete are delivered -/
example : ∃ s, Amb.Reachable ambEx s ∧ s.winner = some 1 ∧ s.log = [(1, .next (.int 3)), (1, .complete)] ∧
    s.threads.all (fun th => th.pc = .idle && th.todo.isEmpty && !th.fin) = true :=
  ⟨_, Amb.reachable_of_run .init (Amb.rep 2 0 ++ Amb.rep 19 1 ++ Amb.pk 1 1 ++ Amb.rep 4 1 ++ Amb.rep 6 0) _ rfl, by decide +kernel,
    by decide +kernel, by decide +kernel⟩

/- ===================== part j ===================== -/
open Rx Rx.Conc

/-! ## zip -/
namespace ZipP
open Rx.Conc.Zip

def helds (ths : List Zip.Thread) : List (List Data) := ths.filterMap fun th => th.pc.held

theorem count_helds_set {ths : List Zip.Thread} {i : Nat} {th th' : Zip.Thread} (hi : ths[i]? = some th)
    (a : List Data) :
    (helds (ths.set i th')).count a + th.pc.held.toList.count a
      = (helds ths).count a + th'.pc.held.toList.count a := by
  induction ths generalizing i with
  | nil => simp at hi
  | cons t ts ih =>
    cases i with
    | zero =>
      simp at hi; subst hi
      simp only [helds, List.set_cons_zero, List.filterMap_cons]
      cases h1 : t.pc.held <;> cases h2 : th'.pc.held <;> simp [List.count_cons] <;> omega
    | succ n =>
      simp at hi
      have := ih hi
      simp only [helds, List.set_cons_succ, List.filterMap_cons] at this ⊢
      cases h1 : t.pc.held <;> simp [List.count_cons] <;> omega

structure Inv (scripts : List (List Data)) (s : Zip.State) : Prop where
  lenQ : s.queues.length = scripts.length
  lenT : s.threads.length = scripts.length
  pref : ∀ (i : Nat) (q : List Data) (th : Zip.Thread) (sc : List Data), s.queues[i]? = some q →
    s.threads[i]? = some th → scripts[i]? = some sc → ∃ pre, pre.length = s.popped.length ∧ pre ++ q ++ th.todo = sc
  pop : s.popped = (List.range s.popped.length).map (Zip.tuple scripts)
  cnt : ∀ a, (s.log.map (·.2)).count a + (helds s.threads).count a + s.dropped.count a = s.popped.count a
  nodrop : s.sub = true → s.dropped = []
  live : scripts ≠ [] → s.sub = true → Zip.allFilled s.queues = true →
    ∃ (j : Nat) (th : Zip.Thread), s.threads[j]? = some th ∧ th.finished = false

/-- steps that touch neither the queues nor the own `todo` -/
theorem inv_update_light {scripts : List (List Data)} {s : Zip.State} (h : Inv scripts s) {i : Nat}
    {th : Zip.Thread} (hi : s.threads[i]? = some th) (s' : Zip.State) (th' : Zip.Thread)
    (hth : s'.threads = s.threads.set i th')
    (hq : s'.queues = s.queues) (hpop : s'.popped = s.popped) (htodo : th'.todo = th.todo)
    (hcnt : ∀ a, (s'.log.map (·.2)).count a + th'.pc.held.toList.count a + s'.dropped.count a
      = (s.log.map (·.2)).count a + th.pc.held.toList.count a + s.dropped.count a)
    (hnodrop : s'.sub = true → s'.dropped = [])
    (hlive : s'.sub = true → Zip.allFilled s'.queues = true → th'.finished = false) : Inv scripts s' := by
  have hlt : i < s.threads.length := (List.getElem?_eq_some_iff.mp hi).1
  have hown : s'.threads[i]? = some th' := by rw [hth, List.getElem?_set]; simp [hlt]
  refine ⟨by rw [hq]; exact h.lenQ, by rw [hth, List.length_set]; exact h.lenT, ?_, by rw [hpop]; exact h.pop, ?_,
    hnodrop, fun _ hs hf => ⟨i, th', hown, hlive hs hf⟩⟩
  · intro j q tj sc hqj htj hsc
    rw [hq] at hqj
    rw [hpop]
    by_cases hji : j = i
    · subst hji; rw [hown] at htj; cases htj; rw [htodo]; exact h.pref j q th sc hqj hi hsc
    · rw [hth, List.getElem?_set] at htj
      simp [Ne.symm hji] at htj
      exact h.pref j q tj sc hqj htj hsc
  · intro a
    have h1 := count_helds_set (th' := th') hi a
    have h2 := h.cnt a
    have h3 := hcnt a
    rw [hth, hpop]
    omega

macro "dischZ" h:ident hi:ident : tactic => `(tactic| (
  refine inv_update_light $h $hi _ _ rfl rfl rfl rfl ?_ ?_ ?_ <;>
  (try simp only [Zip.State.upd]) <;>
  grind [Zip.Pc.held, Zip.Thread.finished, List.count_singleton]))

theorem headD_mem_of_prefix {pre q todo sc : List Data} (h : pre ++ q ++ todo = sc) (hq : q.isEmpty = false) :
    sc.getD pre.length Data.unit = q.headD Data.unit ∧ (pre ++ [q.headD Data.unit]) ++ q.tail ++ todo = sc := by
  cases q with
  | nil => simp at hq
  | cons a r =>
    subst h
    refine ⟨?_, by simp⟩
    simp [List.getD_eq_getElem?_getD]

theorem allFilled_get {qs : List (List Data)} (h : Zip.allFilled qs = true) {i : Nat} {q : List Data}
    (hq : qs[i]? = some q) : q.isEmpty = false := by
  have := List.all_eq_true.mp h q (List.mem_of_getElem? hq)
  simpa using this

theorem inv_step {scripts : List (List Data)} {s s' : Zip.State} {l : Zip.Label} (h : Inv scripts s)
    (hs : Zip.step s l = some s') : Inv scripts s' := by
  cases l with
  | unsub =>
    simp only [Zip.step, Option.some.injEq] at hs; subst hs
    exact ⟨h.lenQ, h.lenT, h.pref, h.pop, h.cnt, by simp, by simp⟩
  | th i =>
    simp only [Zip.step] at hs
    cases hi : s.threads[i]? with
    | none => simp [hi] at hs
    | some th =>
      simp only [hi] at hs
      have hlt : i < s.threads.length := (List.getElem?_eq_some_iff.mp hi).1
      have hnd := h.nodrop
      cases hpc : th.pc <;> simp only [hpc] at hs
      case idle =>
        split at hs
        · simp only [Option.some.injEq] at hs; subst hs; dischZ h hi
        · cases hs
      case push =>
        simp only [Option.some.injEq] at hs; subst hs
        have hown : (s.threads.set i { th with todo := th.todo.tail, pc := .get })[i]? =
            some { th with todo := th.todo.tail, pc := .get } := by rw [List.getElem?_set]; simp [hlt]
        refine ⟨by simp [Zip.State.upd, h.lenQ], by simp [Zip.State.upd, h.lenT], ?_, h.pop, ?_, hnd,
          fun _ _ _ => ⟨i, _, hown, by simp [Zip.Thread.finished]⟩⟩
        · intro j q tj sc hqj htj hsc
          simp only [Zip.State.upd] at hqj htj ⊢
          by_cases hji : j = i
          · subst hji
            rw [hown] at htj; cases htj
            rw [List.getElem?_modify_eq] at hqj
            cases hq0 : s.queues[j]? with
            | none => simp [hq0] at hqj
            | some q0 =>
              simp [hq0] at hqj; subst hqj
              obtain ⟨pre, hp1, hp2⟩ := h.pref j q0 th sc hq0 hi hsc
              refine ⟨pre, hp1, ?_⟩
              rw [← hp2]
              simp only [List.append_assoc]
              congr 2
              cases th.todo <;> simp
          · rw [List.getElem?_modify_ne _ _ (Ne.symm hji)] at hqj
            rw [List.getElem?_set] at htj
            simp [Ne.symm hji] at htj
            exact h.pref j q tj sc hqj htj hsc
        · intro a
          have h1 := count_helds_set (th' := { th with todo := th.todo.tail, pc := .get }) hi a
          have h2 := h.cnt a
          simp only [Zip.State.upd, hpc, Zip.Pc.held] at h1 ⊢
          simp at h1
          omega
      case get =>
        by_cases hf : Zip.allFilled s.queues = true
        · simp only [hf, if_true, Option.some.injEq] at hs; subst hs
          have hown : (s.threads.set i { th with pc := .chk (Zip.heads s.queues) })[i]? =
              some { th with pc := .chk (Zip.heads s.queues) } := by rw [List.getElem?_set]; simp [hlt]
          have hheads : Zip.heads s.queues = Zip.tuple scripts s.popped.length := by
            apply List.ext_getElem?
            intro j
            simp only [Zip.heads, Zip.tuple, List.getElem?_map]
            cases hq : s.queues[j]? with
            | none =>
              have : scripts[j]? = none := by
                rw [List.getElem?_eq_none_iff] at hq ⊢; rw [← h.lenQ]; exact hq
              simp [this]
            | some q =>
              have hj : j < s.queues.length := (List.getElem?_eq_some_iff.mp hq).1
              have hjt : j < s.threads.length := by rw [h.lenT, ← h.lenQ]; exact hj
              have hjs : j < scripts.length := by rw [← h.lenQ]; exact hj
              have hsc : scripts[j]? = some scripts[j] := List.getElem?_eq_getElem hjs
              obtain ⟨pre, hp1, hp2⟩ := h.pref j q _ _ hq (List.getElem?_eq_getElem hjt) hsc
              have := (headD_mem_of_prefix hp2 (allFilled_get hf hq)).1
              rw [hp1] at this
              simp only [hsc, Option.map_some, Option.some.injEq]
              exact this.symm
          refine ⟨by simp [Zip.State.upd, h.lenQ], by simp [Zip.State.upd, h.lenT], ?_, ?_, ?_, hnd,
            fun _ _ _ => ⟨i, _, hown, by simp [Zip.Thread.finished]⟩⟩
          · intro j q tj sc hqj htj hsc
            simp only [Zip.State.upd, List.getElem?_map] at hqj htj ⊢
            cases hq0 : s.queues[j]? with
            | none => simp [hq0] at hqj
            | some q0 =>
              simp [hq0] at hqj; subst hqj
              have htj0 : ∃ tj0, s.threads[j]? = some tj0 ∧ tj0.todo = tj.todo := by
                by_cases hji : j = i
                · subst hji; rw [hown] at htj; cases htj; exact ⟨th, hi, rfl⟩
                · rw [List.getElem?_set] at htj; simp [Ne.symm hji] at htj; exact ⟨tj, htj, rfl⟩
              obtain ⟨tj0, htj0, hto⟩ := htj0
              obtain ⟨pre, hp1, hp2⟩ := h.pref j q0 tj0 sc hq0 htj0 hsc
              refine ⟨pre ++ [q0.headD Data.unit], by simp [hp1], ?_⟩
              rw [← hto]
              exact (headD_mem_of_prefix hp2 (allFilled_get hf hq0)).2
          · simp only [Zip.State.upd, List.length_append, List.length_singleton, List.range_succ, List.map_append,
              List.map_singleton]
            rw [← h.pop, hheads]
          · intro a
            have h1 := count_helds_set (th' := { th with pc := .chk (Zip.heads s.queues) }) hi a
            have h2 := h.cnt a
            simp only [Zip.State.upd, hpc, Zip.Pc.held] at h1 ⊢
            simp [List.count_singleton] at h1 ⊢
            omega
        · simp only [hf, Option.some.injEq] at hs
          simp only [Bool.false_eq_true, if_false] at hs
          subst hs
          refine inv_update_light h hi _ _ rfl rfl rfl rfl ?_ hnd ?_
          · intro a; simp [Zip.State.upd, hpc, Zip.Pc.held]
          · intro _ hf'; exact absurd hf' hf
      all_goals (simp only [Option.some.injEq] at hs; subst hs; dischZ h hi)

theorem helds_init (scripts : List (List Data)) :
    helds (scripts.map fun sc => ({ todo := sc, pc := .idle } : Zip.Thread)) = [] := by
  induction scripts with
  | nil => rfl
  | cons a t ih => simp [helds, Zip.Pc.held]

theorem inv_init (scripts : List (List Data)) : Inv scripts (Zip.init scripts) := by
  refine ⟨by simp [Zip.init], by simp [Zip.init], ?_, by simp [Zip.init], ?_, by simp [Zip.init], ?_⟩
  · intro i q th sc hq hth hsc
    simp only [Zip.init, List.getElem?_map, hsc, Option.map_some, Option.some.injEq] at hq hth
    subst hq; subst hth
    exact ⟨[], rfl, by simp⟩
  · intro a
    simp [Zip.init, helds_init]
  · intro hne _ hf
    exfalso
    cases scripts with
    | nil => exact hne rfl
    | cons a t => simp [Zip.init, Zip.allFilled] at hf

theorem inv_reachable {scripts : List (List Data)} {s : Zip.State} (h : Zip.Reachable scripts s) : Inv scripts s := by
  induction h with
  | init => exact inv_init scripts
  | step _ hs ih => exact inv_step ih hs

theorem minLen_le_of_mem {scripts : List (List Data)} {sc : List Data} (h : sc ∈ scripts) :
    Zip.minLen scripts ≤ sc.length := by
  induction scripts with
  | nil => simp at h
  | cons a t ih =>
    cases t with
    | nil => simp at h; subst h; simp [Zip.minLen]
    | cons b r =>
      simp only [Zip.minLen]
      rcases List.mem_cons.mp h with h | h
      · subst h; exact Nat.min_le_left _ _
      · exact Nat.le_trans (Nat.min_le_right _ _) (ih h)

theorem le_minLen {scripts : List (List Data)} {p : Nat} (hne : scripts ≠ [])
    (h : ∀ sc ∈ scripts, p ≤ sc.length) : p ≤ Zip.minLen scripts := by
  induction scripts with
  | nil => exact absurd rfl hne
  | cons a t ih =>
    cases t with
    | nil => simpa [Zip.minLen] using h a (by simp)
    | cons b r =>
      simp only [Zip.minLen]
      exact Nat.le_min.mpr ⟨h a (by simp), ih (by simp) fun sc hsc => h sc (List.mem_cons_of_mem _ hsc)⟩

theorem popped_le {scripts : List (List Data)} {s : Zip.State} (h : Inv scripts s) :
    ∀ sc ∈ scripts, s.popped.length ≤ sc.length := by
  intro sc hsc
  obtain ⟨i, hi⟩ := List.getElem?_of_mem hsc
  have hlt : i < scripts.length := (List.getElem?_eq_some_iff.mp hi).1
  have hlq : i < s.queues.length := by rw [h.lenQ]; exact hlt
  have hltt : i < s.threads.length := by rw [h.lenT]; exact hlt
  have hq : s.queues[i]? = some s.queues[i] := List.getElem?_eq_getElem hlq
  have ht : s.threads[i]? = some s.threads[i] := List.getElem?_eq_getElem hltt
  obtain ⟨pre, hp1, hp2⟩ := h.pref i _ _ sc hq ht hi
  rw [← hp1, ← hp2]
  simp only [List.length_append]
  omega

end ZipP

/-- **zip, safety at every moment.**  For any number of inputs, any items, any interleaving (and even if the subscriber
    unsubscribes in the middle): the tuples delivered so far, together with the tuples popped under the lock but still
    on their way to the subscriber and the tuples discarded because the subscriber had gone, are — as a multiset —
    exactly the tuples `(i-th item of every input)` for `i < p`, each ONCE, where `p ≤` the length of the shortest input.
    So every delivered tuple pairs the i-th items for some `i < min length`, and no index is delivered twice. -/
theorem zip_tuples_safe {scripts : List (List Data)} {s : Zip.State} (h : Zip.Reachable scripts s) :
    (s.log.map (·.2) ++ ZipP.helds s.threads ++ s.dropped).Perm
      ((List.range s.popped.length).map (Zip.tuple scripts)) ∧
    (scripts ≠ [] → s.popped.length ≤ Zip.minLen scripts) := by
  have hI := ZipP.inv_reachable h
  refine ⟨?_, fun hne => ZipP.le_minLen hne (ZipP.popped_le hI)⟩
  rw [← hI.pop]
  apply List.perm_iff_count.mpr
  intro a
  simp only [List.count_append]
  exact hI.cnt a

/-- **zip_tuples.**  For any number (≥ 1) of inputs, any items, any interleaving: when every input thread has finished
    and the subscriber is still subscribed, the multiset of delivered tuples is EXACTLY
    `{ (i-th item of every input) | i < min length }`, each once.
    The delivery ORDER may differ from the index order (see `zip_out_of_order_possible`). -/
theorem zip_tuples {scripts : List (List Data)} {s : Zip.State} (h : Zip.Reachable scripts s) (hne : scripts ≠ [])
    (hd : s.allDone = true) (hsub : s.sub = true) :
    (s.log.map (·.2)).Perm ((List.range (Zip.minLen scripts)).map (Zip.tuple scripts)) := by
  have hI := ZipP.inv_reachable h
  have hfin : ∀ th ∈ s.threads, th.pc = .idle ∧ th.todo = [] := by
    intro th hth
    have := List.all_eq_true.mp hd th hth
    simpa [Zip.Thread.finished] using this
  have hheld : ZipP.helds s.threads = [] := by
    unfold ZipP.helds
    rw [List.filterMap_eq_nil_iff]
    intro th hth
    rw [(hfin th hth).1]; rfl
  have hlen : s.popped.length = Zip.minLen scripts := by
    apply Nat.le_antisymm (ZipP.le_minLen hne (ZipP.popped_le hI))
    have hnf : Zip.allFilled s.queues = false := by
      cases hf : Zip.allFilled s.queues with
      | false => rfl
      | true =>
        obtain ⟨j, th, hj, hb⟩ := hI.live hne hsub hf
        have := hfin th (List.mem_of_getElem? hj)
        simp [Zip.Thread.finished, this.1, this.2] at hb
    have : ∃ q ∈ s.queues, q.isEmpty = true := by
      unfold Zip.allFilled at hnf
      simpa using hnf
    obtain ⟨q, hq, hqe⟩ := this
    obtain ⟨i, hi⟩ := List.getElem?_of_mem hq
    have hlt : i < s.queues.length := (List.getElem?_eq_some_iff.mp hi).1
    have hltt : i < s.threads.length := by rw [hI.lenT, ← hI.lenQ]; exact hlt
    have hlts : i < scripts.length := by rw [← hI.lenQ]; exact hlt
    have ht : s.threads[i]? = some s.threads[i] := List.getElem?_eq_getElem hltt
    have hsc : scripts[i]? = some scripts[i] := List.getElem?_eq_getElem hlts
    obtain ⟨pre, hp1, hp2⟩ := hI.pref i q _ _ hi ht hsc
    have htodo := (hfin _ (List.mem_of_getElem? ht)).2
    have hq0 : q = [] := by simpa using hqe
    rw [htodo, hq0] at hp2
    simp at hp2
    have := ZipP.minLen_le_of_mem (List.mem_of_getElem? hsc)
    rw [← hp2, hp1] at this
    exact this
  have := (zip_tuples_safe h).1
  rw [hheld, hI.nodrop hsub, hlen] at this
  simpa using this

def zipEx : List (List Data) := [[.int 1, .int 2], [.int 3, .int 4]]

/-- non-vacuity of `zip_tuples`: a complete run, both tuples delivered -/
example : ∃ s, Zip.Reachable zipEx s ∧ s.allDone = true ∧ s.sub = true ∧
    s.log = [(1, [.int 1, .int 3]), (1, [.int 2, .int 4])] :=
  ⟨_, Zip.reachable_of_run .init (Zip.rep 6 0 ++ Zip.rep 18 1) _ rfl, by decide +kernel, by decide +kernel,
    by decide +kernel⟩

/-- WITNESS: zip may deliver tuple 1 BEFORE tuple 0 (each thread pops one tuple under the lock and emits outside):
    T0 pushes 1; T1 pushes 3 (not yet at `get`); T0 pushes 2 and pops (1,3); T1's `get` fails, T1 pushes 4, pops (2,4)
    and delivers it; only then T0 delivers (1,3). -/
theorem zip_out_of_order_possible : ∃ s, Zip.Reachable zipEx s ∧ s.allDone = true ∧
    s.log = [(1, [.int 2, .int 4]), (0, [.int 1, .int 3])] :=
  ⟨_, Zip.reachable_of_run .init (Zip.rep 3 0 ++ Zip.rep 2 1 ++ Zip.rep 3 0 ++ Zip.rep 10 1 ++ Zip.rep 6 0) _ rfl,
    by decide +kernel, by decide +kernel⟩

/- ===================== part k ===================== -/
open Rx Rx.Conc Rx.Conc.Sctl

/-! ## non-vacuity examples and witnesses for the merge / StreamController LTS -/

def mergeEx : List Script := [{ items := [.int 1, .int 2] }, { items := [.int 3] }]

/-- non-vacuity of `merge_conserves`, `last_one_out`, `never_two_terminals`: a fully interleaved (round-robin) run of two
    inputs reaches a state where all threads are finished; input 1's item overtakes input 0's, one complete, last. -/
example : ∃ s, Reachable mergeEx s ∧ s.allDone = true ∧ (∀ sc ∈ mergeEx, sc.err = none) ∧
    (∀ sc ∈ mergeEx, sc.unsub = false) ∧
    s.log = [(1, .next (.int 3)), (0, .next (.int 1)), (0, .next (.int 2)), (0, .complete)] ∧
    s.emptyObs = [0] :=
  ⟨roundRobin 200 (init mergeEx) 2, reachable_roundRobin 200 2 _ .init, by decide +kernel, by decide, by decide,
    by decide +kernel, by decide +kernel⟩

/-- non-vacuity of the hypothesis of `map_empty_all_done`: the map is empty and nobody has claimed yet -/
example : ∃ s, Reachable mergeEx s ∧ s.sN = true ∧ allFalse s.live = true :=
  ⟨runThread 12 (runThread 100 (init mergeEx) 0) 1, reachable_runThread 12 _ 1 (reachable_runThread 100 _ 0 .init),
    by decide +kernel, by decide +kernel⟩

def errEx : List Script := [{ items := [], err := some 7 }, { items := [] }, { items := [] }]

/-- WITNESS (why `last_one_out_unique` needs "no input fails"): if one input fails, `finalize` clears `unscribers`, and
    then TWO other inputs can each observe `len()==0` in `sink_complete`.  It is harmless: both lose the claim of
    `fn_next`, so still exactly one terminal (the error) is delivered — cf. `never_two_terminals`. -/
theorem two_empty_observers_with_error : ∃ s, Reachable errEx s ∧ s.emptyObs = [1, 2] ∧ s.log = [(0, .error 7)] ∧
    s.allDone = true :=
  ⟨runThread 100 (runThread 100 (runThread 100 (runThread 5 (runThread 5 (init errEx) 1) 2) 0) 1) 2,
    reachable_runThread _ _ _ (reachable_runThread _ _ _ (reachable_runThread _ _ _
      (reachable_runThread _ _ _ (reachable_runThread _ _ _ .init)))),
    by decide +kernel, by decide +kernel, by decide +kernel⟩

def errEx2 : List Script := [{ items := [], err := some 7 }, { items := [.int 3] }]

/-- WITNESS (outside C11, whose hypothesis is "none fails"): when an input FAILS, a `next` callback of another input can
    start after the `error` callback started — input 1 has fetched `fn_next` (a clone of the function) before input 0
    claims it, and calls it afterwards. -/
theorem next_after_error_possible : ∃ s, Reachable errEx2 s ∧ s.log = [(0, .error 7), (1, .next (.int 3))] :=
  ⟨runThread 1 (runThread 100 (runThread 4 (init errEx2) 1) 0) 1,
    reachable_runThread _ _ _ (reachable_runThread _ _ _ (reachable_runThread _ _ _ .init)), by decide +kernel⟩

def unsubEx : List Script := [{ items := [.int 1, .int 2] }, { items := [.int 3] }, { items := [], unsub := true }]

/-- WITNESS (why `merge_conserves` needs "no unsubscribe"): a concurrent `unsubscribe()` cuts the delivery short — all
    threads are finished, one item was delivered, no complete.  (`never_two_terminals`, `last_one_out` still hold.) -/
theorem unsubscribe_cuts_delivery : ∃ s, Reachable unsubEx s ∧ s.allDone = true ∧ s.log = [(0, .next (.int 1))] :=
  ⟨runThread 100 (runThread 100 (runThread 100 (runThread 6 (init unsubEx) 0) 2) 0) 1,
    reachable_runThread _ _ _ (reachable_runThread _ _ _ (reachable_runThread _ _ _ (reachable_runThread _ _ _ .init))),
    by decide +kernel, by decide +kernel⟩

/-- WITNESS (outside C11; it is the cross-thread clause of C05): a `next` callback can START after a concurrent
    `unsubscribe()` has completely returned, because the input thread fetched (cloned) `fn_next` before it was cleared. -/
theorem next_after_unsubscribe_returned_possible : ∃ s1 s2, Reachable unsubEx s1 ∧
    (s1.threads[2]?.map Thread.finished) = some true ∧ s1.log = [] ∧
    step s1 { tid := 0 } = some s2 ∧ s2.log = [(0, .next (.int 1))] :=
  ⟨runThread 100 (runThread 4 (init unsubEx) 0) 2, _,
    reachable_runThread _ _ _ (reachable_runThread _ _ _ .init), by decide +kernel, by decide +kernel, rfl,
    by decide +kernel⟩

end Rx.C11

#print axioms Rx.C11.never_two_terminals
#print axioms Rx.C11.finalize_never_unsubscribes
#print axioms Rx.C11.terminal_after_own_nexts
#print axioms Rx.C11.map_empty_all_done
#print axioms Rx.C11.last_one_out
#print axioms Rx.C11.last_one_out_unique
#print axioms Rx.C11.merge_prefix
#print axioms Rx.C11.merge_conserves
#print axioms Rx.C11.take_at_most_n
#print axioms Rx.C11.take_never_two_terminals
#print axioms Rx.C11.amb_one_winner
#print axioms Rx.C11.amb_never_two_terminals
#print axioms Rx.C11.zip_tuples_safe
#print axioms Rx.C11.zip_tuples
#print axioms Rx.C11.two_empty_observers_with_error
#print axioms Rx.C11.next_after_error_possible
#print axioms Rx.C11.unsubscribe_cuts_delivery
#print axioms Rx.C11.next_after_unsubscribe_returned_possible
#print axioms Rx.C11.take_next_after_complete_possible
#print axioms Rx.C11.take_may_lose_item
#print axioms Rx.C11.zip_out_of_order_possible
