import RxVerif.Theorems.C10Ref
import RxVerif.Kernel.Comb
/-
C03-REF, part 1: what every combining operator of model A shares.

  * WP rules for primitives executed while a guard is held (`finalize` unsubscribes the inner observers while
    holding the read guard of the controller's map; `upstream_abort_observe` holds the write guard)
  * the layout `Lay` of the worlds the test programs build: `k` plain subjects, one `StreamController` whose
    subscriber is the root observer of test user 0, one inner observer per source
  * the simulation relation `Rel`  World ↔ `Comb.Ctl`
  * one lemma per `StreamController` method (`finalize`, `sink_next`, `sink_error`, `sink_complete`,
    `sink_complete_force`, `upstream_abort_observe`) and one for `Subject::next/error/complete` on source `i`
-/
namespace Rx.CRef
open Rx.Sim Rx.Ref Rx.Comb

/-! ### primitives under held guards -/

section prims
variable {w : World} {Q : World → Prop}

theorem wp_cellRead_nc {c : Nat} {k : Data → Prog} (hnc : w.conflicts (.cell c) false = false)
    (hk : WP (k (w.cells[c]?.getD .unit)) w Q) : WP (.cellRead c false k) w Q :=
  wp_step _ _ (fun _ _ => by simp only [run, hnc, Bool.and_false]; rfl) hk

theorem wp_cellRead_val {c : Nat} {k : Data → Prog} {v : Data} (hh : w.held = []) (hv : w.cells[c]? = some v)
    (hk : WP (k v) w Q) : WP (.cellRead c false k) w Q :=
  wp_cellRead hh (by rw [hv]; exact hk)

theorem wp_cellWrite_nc {c : Nat} {d : Data} {k : Prog} (hnc : w.conflicts (.cell c) true = false)
    (hk : WP k { w with cells := w.cells.set c d } Q) : WP (.cellWrite c false d k) w Q :=
  wp_step _ _ (fun _ _ => by simp only [run, hnc, Bool.and_false]; rfl) hk

theorem wp_cellRead_g {c : Nat} {k : Data → Prog}
    (hk : WP (k (w.cells[c]?.getD .unit)) w Q) : WP (.cellRead c true k) w Q :=
  wp_step _ _ (fun _ _ => by simp only [run]; rfl) hk

theorem wp_cellWrite_g {c : Nat} {d : Data} {k : Prog}
    (hk : WP k { w with cells := w.cells.set c d } Q) : WP (.cellWrite c true d k) w Q :=
  wp_step _ _ (fun _ _ => by simp only [run]; rfl) hk

theorem wp_lockAcq {l : LockId} {wr : Bool} {k : Prog} (hnc : w.conflicts l wr = false)
    (hk : WP k { w with held := (l, wr) :: w.held } Q) : WP (.lockAcq l wr k) w Q :=
  wp_step _ _ (fun _ _ => by simp only [run, hnc]; rfl) hk

theorem wp_lockRel {l : LockId} {k : Prog} (hk : WP k (w.release l) Q) : WP (.lockRel l k) w Q :=
  wp_step _ _ (fun _ _ => by simp only [run]) hk

theorem release_head (w : World) (l : LockId) (b : Bool) (hl : List (LockId × Bool)) (h : w.held = (l, b) :: hl) :
    w.release l = { w with held := hl } := by
  cases w; simp_all [World.release]

theorem wp_slotCall_none {s : Nat} {d : Data} {cl : Bool} {k : Prog} (hs : w.slots[s]? = some none)
    (hk : WP k w Q) : WP (.slotCall s d cl k) w Q :=
  wp_step _ _ (fun _ _ => by simp only [run, hs]) hk

/-- `lock; slot.call(d); unlock` on an empty slot, whatever else is held -/
theorem wp_lockedSlotCall_none' {s : Nat} {d : Data} {wr cl : Bool} {k : Prog}
    (hnc : w.conflicts (.slot s) wr = false) (hs : w.slots[s]? = some none) (hk : WP k w Q) :
    WP (.lockAcq (.slot s) wr <| .slotCall s d cl <| .lockRel (.slot s) k) w Q := by
  refine wp_lockAcq hnc (wp_slotCall_none hs (wp_lockRel ?_))
  rw [release_head _ _ _ w.held rfl]
  exact hk

theorem wp_obsSetOnUnsub_nc {o : Nat} {f k : Prog} (hnc : w.conflicts (.obs o) true = false)
    (hk : WP k (w.setObs o fun x => { x with onUnsub := some f }) Q) : WP (.obsSetOnUnsub o f k) w Q :=
  wp_step _ _ (fun _ _ => by simp only [run, hnc]; rfl) hk

/-- only guards of cell `m` are held: nothing else conflicts -/
theorem noconf_other {l : LockId} {m : Nat} {wr : Bool} (h : ∀ p ∈ w.held, p.1 = .cell m) (hl : l ≠ .cell m) :
    w.conflicts l wr = false := by
  simp only [World.conflicts, List.any_eq_false]
  intro p hp
  have := h p hp
  obtain ⟨a, b⟩ := p
  simp only at this
  subst this
  simp [Ne.symm hl]

end prims

/-! ### layout and simulation relation -/

/-- the `i`-th subject allocated in the empty world -/
def sjOf (i : Nat) : Subj := ⟨2 * i, 2 * i + 1, 2 * i, 2 * i + 1⟩

/-- `k` sources; source `i` is observed through inner observer `ob i`, registered under serial `ser i`,
    with closures `hn i / he i / hc i` -/
structure Lay where
  k : Nat
  ser : Nat → Nat
  ob : Nat → Nat
  hn : Nat → Data → Prog
  he : Nat → Nat → Prog
  hc : Nat → Prog

/-- the controller allocated right after the `k` subjects, for root observer 0 -/
def Lay.sc (L : Lay) : Sctl := ⟨0, 2 * L.k, 2 * L.k + 1, 2 * L.k⟩

structure Lay.Ok (L : Lay) : Prop where
  obPos : ∀ i, i < L.k → 0 < L.ob i
  obInj : ∀ i j, i < L.k → j < L.k → L.ob i = L.ob j → i = j
  serInj : ∀ i j, i < L.k → j < L.k → L.ser i = L.ser j → i = j

/-- the teardown `Subject::observable` installed for the (only) observer of subject `i` -/
def hookOf (i : Nat) : Prog := hookProg (sjOf i) ((1 : Nat) : Int)

def innerFull (L : Lay) (i : Nat) (fresh : Bool) : Obs :=
  ⟨some (.code (L.hn i)), some (.code (L.he i)), some (.code (L.hc i)), if fresh then none else some (hookOf i)⟩

/-- inner observer of source `i`: all callbacks installed, or none (after a terminal / an unsubscribe) -/
def InnerSt (L : Lay) (i : Nat) (live fresh : Bool) (x : Obs) : Prop :=
  if live then x = innerFull L i fresh
  else x.next = none ∧ x.error = none ∧ x.complete = none ∧ (x.onUnsub = none ∨ x.onUnsub = some (hookOf i))

def rootObs (L : Lay) (alive : Bool) : Obs :=
  ⟨if alive then some (.user 0) else none, if alive then some (.user 0) else none,
   if alive then some (.user 0) else none, some L.sc.finalize⟩

/-- the part of the world the controller macros leave alone (or change in a known way): the operator's own cell
    `2k+2`, the controller's serial counter, the number of observers -/
structure Fr where
  x : Data
  sv : Nat
  no : Nat

/-- World ↔ `Comb.Ctl`.  `fresh i`: subject `i` has not been subscribed yet (its serial is still 0);
    `hl`: the guards held (only ever of the controller's map); `x`: content of the operator's own cell `2k+2`;
    `out`: what test user 0 has received. -/
structure Rel (L : Lay) (fresh : Nat → Bool) (hl : List (LockId × Bool)) (c : Ctl) (x : Fr) (out : List Ev)
    (w : World) : Prop where
  status : w.status = .ok
  held : w.held = hl
  hlOk : ∀ p ∈ hl, p.1 = .cell (2 * L.k + 1)
  root : w.obs[0]? = some (rootObs L c.alive)
  user : ∃ u, w.users[0]? = some u ∧ u.react = noReact
  regLt : ∀ i ∈ c.reg, i < L.k
  liveLt : ∀ i ∈ c.live, i < L.k
  subjO : ∀ i, i < L.k →
    w.cells[2 * i]? = some (encMap (if c.live.contains i && !fresh i then [(1, L.ob i)] else []))
  subjS : ∀ i, i < L.k → w.cells[2 * i + 1]? = some (.int ((if fresh i then 0 else 1 : Nat) : Int))
  slots : ∀ j, j < 2 * L.k + 1 → w.slots[j]? = some none
  mapC : ∃ l : List Nat, w.cells[2 * L.k + 1]? = some (encMap (l.map fun i => (L.ser i, L.ob i))) ∧
    ∀ i, i ∈ l ↔ i ∈ c.reg
  serC : w.cells[2 * L.k]? = some (.int (x.sv : Int)) ∧ ∀ i ∈ c.reg, L.ser i < x.sv
  nObs : w.obs.length = x.no
  inner : ∀ i, i < L.k → (c.live.contains i = true ∨ c.reg.contains i = true) →
    ∃ o, w.obs[L.ob i]? = some o ∧ InnerSt L i (c.live.contains i) (fresh i) o
  xc : w.cells[2 * L.k + 2]?.getD .unit = x.x
  log : logOf w 0 = out

variable {L : Lay} {fresh : Nat → Bool} {hl : List (LockId × Bool)} {c : Ctl} {x : Fr} {out : List Ev} {w : World}

theorem Rel.noconf (h : Rel L fresh hl c x out w) {l : LockId} (hne : l ≠ .cell (2 * L.k + 1)) (wr : Bool) :
    w.conflicts l wr = false :=
  noconf_other (by rw [h.held]; exact h.hlOk) hne

theorem contains_filter_ne (l : List Nat) (i j : Nat) :
    (l.filter (· != i)).contains j = (l.contains j && (j != i)) := by
  rw [Bool.eq_iff_iff]; simp [List.mem_filter]

theorem encMap_nil : encMap [] = .lnil := rfl

/-- the world after inner observer `i` lost its callbacks and teardown, with subject `i`'s map empty -/
theorem Rel.kill_unsub (ok : L.Ok) (h : Rel L fresh hl c x out w) {i : Nat} (hi : i < L.k) {o : Obs}
    (ho : w.obs[L.ob i]? = some o) (f : Obs → Obs) (hf : InnerSt L i false (fresh i) (f o))
    (cells' : List Data) (hc1 : ∀ j, j ≠ 2 * i → cells'[j]? = w.cells[j]?)
    (hc2 : cells'[2 * i]? = some (encMap [])) :
    Rel L fresh hl { c with live := c.live.filter (· != i) } x out
      { w with obs := w.obs.modify (L.ob i) f, cells := cells' } where
  status := h.status
  held := h.held
  hlOk := h.hlOk
  root := by
    show (w.obs.modify _ _)[0]? = _
    rw [modify_get_other _ _ (by have := ok.obPos i hi; omega)]; exact h.root
  user := h.user
  regLt := h.regLt
  liveLt := fun j hj => h.liveLt j (List.mem_filter.1 hj).1
  subjO := by
    intro j hj
    show cells'[2 * j]? = _
    simp only [contains_filter_ne]
    by_cases e : j = i
    · subst e; simp [hc2]
    · rw [hc1 _ (by omega), h.subjO j hj]; simp [e]
  subjS := by
    intro j hj
    show cells'[2 * j + 1]? = _
    rw [hc1 _ (by omega)]; exact h.subjS j hj
  slots := h.slots
  mapC := by
    obtain ⟨l, hm, hmem⟩ := h.mapC
    exact ⟨l, by show cells'[_]? = _; rw [hc1 _ (by omega)]; exact hm, hmem⟩
  serC := ⟨by show cells'[_]? = _; rw [hc1 _ (by omega)]; exact h.serC.1, h.serC.2⟩
  nObs := by show (w.obs.modify _ _).length = _; rw [List.length_modify]; exact h.nObs
  inner := by
    intro j hj hor
    show ∃ o', (w.obs.modify _ _)[L.ob j]? = some o' ∧ _
    simp only [contains_filter_ne] at hor ⊢
    by_cases e : j = i
    · subst e
      refine ⟨_, modify_get_same _ _ ho, ?_⟩
      simpa using hf
    · have hne : L.ob i ≠ L.ob j := fun q => e (ok.obInj _ _ hi hj q).symm
      rw [modify_get_other _ _ hne]
      have : (j != i) = true := by simp [e]
      simp only [this, Bool.and_true] at hor ⊢
      exact h.inner j hj hor
  xc := by show cells'[_]?.getD _ = _; rw [hc1 _ (by omega)]; exact h.xc
  log := h.log

theorem cell_ne {a b : Nat} (h : a ≠ b) : LockId.cell a ≠ LockId.cell b := fun q => h (LockId.cell.inj q)

/-- `unsubscribe` of the inner observer of source `i` (observer.rs:53-60, then subject.rs:74-83 if the observer
    is registered in the subject): its callbacks are gone and subject `i` has no observer left -/
theorem unsub_inner_aux (ok : L.Ok) (h : Rel L fresh hl c x out w) {i : Nat} (hi : i < L.k) {o : Obs}
    (ho : w.obs[L.ob i]? = some o) (hst : InnerSt L i (c.live.contains i) (fresh i) o) :
    WP (.obsUnsub (L.ob i) .done) w (Rel L fresh hl { c with live := c.live.filter (· != i) } x out) := by
  cases hf : o.onUnsub with
  | none =>
    refine wp_obsUnsub_none ho hf (WP.done ?_)
    refine h.kill_unsub ok hi ho _ (by simp [InnerSt, Obs.cleared]) w.cells (fun _ _ => rfl) ?_
    rw [h.subjO i hi]
    cases hlv : c.live.contains i with
    | false => rfl
    | true =>
      simp only [InnerSt, hlv, ↓reduceIte] at hst
      subst hst
      cases hfr : fresh i with
      | true => rfl
      | false => simp [innerFull, hfr] at hf
  | some f =>
    have hfe : f = hookOf i := by
      cases hlv : c.live.contains i with
      | false =>
        simp only [InnerSt, hlv, Bool.false_eq_true, ↓reduceIte, hf] at hst
        rcases hst.2.2.2 with q | q
        · cases q
        · exact Option.some.inj q
      | true =>
        simp only [InnerSt, hlv, ↓reduceIte] at hst
        subst hst
        cases hfr : fresh i <;> simp [innerFull, hfr] at hf
        exact hf.symm
    subst hfe
    refine wp_obsUnsub_some ho hf ?_
    simp only [hookOf, hookProg, sjOf]
    refine wp_cellRead_nc (h.noconf (cell_ne (by omega)) _) ?_
    have hm : ((w.setObs (L.ob i) fun x => { x.cleared with onUnsub := none }).cells[2 * i]?).getD .unit =
        encMap (if c.live.contains i && !fresh i then [(1, L.ob i)] else []) := by
      show (w.cells[2 * i]?).getD .unit = _
      rw [h.subjO i hi]; rfl
    rw [hm, amapRemove_encMap]
    refine wp_cellWrite_nc (h.noconf (cell_ne (by omega)) _) ?_
    refine wp_lockedSlotCall_none' (h.noconf (by simp) _) (h.slots _ (by omega)) (WP.done (WP.done ?_))
    refine h.kill_unsub ok hi ho _ (by simp [InnerSt, Obs.cleared]) _ (fun j hj => set_get_other _ (Ne.symm hj)) ?_
    refine (set_get_same _ (h.subjO i hi)).trans ?_
    congr 1
    split <;> simp

theorem unsub_inner (ok : L.Ok) (h : Rel L fresh hl c x out w) {i : Nat} (hi : i < L.k)
    (hor : c.live.contains i = true ∨ c.reg.contains i = true) :
    WP (.obsUnsub (L.ob i) .done) w (Rel L fresh hl { c with live := c.live.filter (· != i) } x out) := by
  obtain ⟨o, ho, hst⟩ := h.inner i hi hor
  exact unsub_inner_aux ok h hi ho hst

/-- stream_controller.rs:133-137: `unscribers.values().for_each(|u| u.call(()))` over a snapshot `l ⊆ reg` -/
theorem unsub_loop (ok : L.Ok) : ∀ (l : List Nat) (c : Ctl) (w : World), Rel L fresh hl c x out w →
    (∀ i ∈ l, c.reg.contains i = true) →
    WP (forEach (l.map fun i => Data.int (L.ob i)) fun o => .obsUnsub o.toInt.toNat .done) w
      (Rel L fresh hl { c with live := c.live.filter fun j => !l.contains j } x out) := by
  intro l
  induction l with
  | nil =>
    intro c w h _
    have e : c.live.filter (fun j => !([] : List Nat).contains j) = c.live := by simp
    rw [e]; exact WP.done h
  | cons i rest ih =>
    intro c w h hreg
    simp only [List.map_cons, forEach, toNat_int]
    apply WP.seq
    have hir := hreg i (by simp)
    have hi : i < L.k := h.regLt i (by simpa using hir)
    refine (unsub_inner ok h hi (.inr hir)).conseq fun w1 h1 => ?_
    refine (ih _ w1 h1 fun j hj => hreg j (by simp [hj])).conseq fun w2 h2 => ?_
    have e : (c.live.filter (· != i)).filter (fun j => !rest.contains j) =
        c.live.filter fun j => !(i :: rest).contains j := by
      rw [List.filter_filter]; apply List.filter_congr; intro j _
      simp only [List.contains_cons, Bool.not_or, bne]; rw [Bool.and_comm]
    rw [← e]; exact h2

/-- `StreamController::finalize` (stream_controller.rs:132-145) once the subscriber has lost its callbacks -/
theorem finalize_spec (ok : L.Ok) (h : Rel L fresh [] c x out w) (ha : c.alive = false) :
    WP L.sc.finalize w (Rel L fresh [] c.finalize x out) := by
  simp only [Sctl.finalize, Lay.sc]
  refine wp_lockAcq (noconf_of_held_nil h.held _ _) ?_
  have h1 : Rel L fresh [(.cell (2 * L.k + 1), false)] c x out
      { w with held := (.cell (2 * L.k + 1), false) :: w.held } :=
    { h with held := by show _ :: w.held = _; rw [h.held], hlOk := by intro p hp; simp at hp; simp [hp] }
  refine wp_cellRead_g ?_
  obtain ⟨l, hm, hmem⟩ := h1.mapC
  simp only [hm, Option.getD_some, amapVals_encMap, List.map_map, Function.comp_def]
  apply WP.seq
  refine (unsub_loop ok l c _ h1 fun i hi => by simpa using (hmem i).1 hi).conseq fun w2 h2 => ?_
  have el : c.live.filter (fun j => !l.contains j) = c.live.filter (fun j => !c.reg.contains j) := by
    apply List.filter_congr; intro j _
    congr 1; rw [Bool.eq_iff_iff]; simp [hmem j]
  rw [el] at h2
  refine wp_lockRel ?_
  rw [release_head _ _ _ _ h2.held]
  refine wp_cellWrite_nc (noconf_of_held_nil rfl _ _) ?_
  refine wp_obsIsSub (x := rootObs L false) (by have := h2.root; rw [ha] at this; exact this) ?_
  simp only [rootObs, Obs.isSub, Option.isSome_none, Bool.false_and, Bool.false_eq_true, ↓reduceIte]
  apply WP.seq
  refine WP.done ?_
  refine wp_lockedSlotCall_none' (noconf_of_held_nil rfl _ _) (h2.slots _ (by omega)) (WP.done ?_)
  exact
    { status := h2.status, held := rfl, hlOk := by intro p hp; cases hp
      root := by have := h2.root; rw [ha] at this; exact this
      user := h2.user
      regLt := by intro i hi; cases hi
      liveLt := h2.liveLt
      subjO := by
        intro i hi; show (w2.cells.set _ _)[_]? = _
        rw [set_get_other _ (by omega)]; exact h2.subjO i hi
      subjS := by
        intro i hi; show (w2.cells.set _ _)[_]? = _
        rw [set_get_other _ (by omega)]; exact h2.subjS i hi
      slots := h2.slots
      mapC := by
        obtain ⟨l2, hm2, _⟩ := h2.mapC
        exact ⟨[], set_get_same _ hm2, fun _ => Iff.rfl⟩
      serC := by
        refine ⟨?_, by intro i hi; cases hi⟩
        show (w2.cells.set _ _)[_]? = _
        rw [set_get_other _ (by omega)]; exact h2.serC.1
      nObs := h2.nObs
      inner := by
        intro i hi hor
        refine h2.inner i hi (.inl ?_)
        rcases hor with q | q
        · exact q
        · simp [Ctl.finalize] at q
      xc := by
        show (w2.cells.set _ _)[_]?.getD _ = _
        rw [set_get_other _ (by omega)]; exact h2.xc
      log := h2.log }

/-! ### deliveries to the subscriber (root observer 0 of test user 0) -/

theorem Rel.emit (h : Rel L fresh hl c x out w) (ev : Ev) :
    Rel L fresh hl c x (out ++ [ev]) (w.emit (.ev 0 ev)) :=
  { h with log := by rw [logOf_emit_same, h.log] }

theorem Rel.rootTerminal (ok : L.Ok) (h : Rel L fresh hl c x out w) (ev : Ev) :
    Rel L fresh hl { c with alive := false } x (out ++ [ev]) ((w.setObs 0 Obs.cleared).emit (.ev 0 ev)) :=
  { h with
    root := by
      show (w.obs.modify 0 _)[0]? = _
      rw [modify_get_same _ _ h.root]; cases c.alive <;> rfl
    nObs := by show (w.obs.modify _ _).length = _; rw [List.length_modify]; exact h.nObs
    inner := by
      intro i hi hor
      show ∃ o, (w.obs.modify 0 _)[L.ob i]? = some o ∧ _
      rw [modify_get_other _ _ (by have := ok.obPos i hi; omega)]
      exact h.inner i hi hor
    log := by rw [logOf_emit_same]; show logOf w 0 ++ _ = _; rw [h.log] }

theorem root_deliver {k : Prog} {Q : World → Prop} (h : Rel L fresh hl c x out w) (ha : c.alive = true) (ev : Ev)
    (hk : WP k (w.deliverTo 0 0 ev) Q) : WP (evProg ev 0 k) w Q := by
  obtain ⟨u, hu, hr⟩ := h.user
  have hroot := h.root
  rw [ha] at hroot
  exact wp_ev_user hroot rfl rfl rfl hu hr hk

/-- stream_controller.rs:84-90 -/
theorem sinkNext_spec (ok : L.Ok) (h : Rel L fresh [] c x out w) (d : Data) :
    WP (L.sc.sinkNext d) w (fun w' => Rel L fresh [] (c.sinkNext d).1 x (out ++ (c.sinkNext d).2) w') := by
  simp only [Sctl.sinkNext, Lay.sc]
  refine wp_obsIsSub h.root ?_
  cases ha : c.alive with
  | true =>
    simp only [rootObs, Obs.isSub, Option.isSome_some, Bool.and_self, ↓reduceIte, Ctl.sinkNext, ha]
    exact root_deliver h ha (.next d) (WP.done (h.emit _))
  | false =>
    simp only [rootObs, Obs.isSub, Option.isSome_none, Bool.false_and, Bool.false_eq_true, ↓reduceIte,
      Ctl.sinkNext, ha, List.append_nil]
    exact finalize_spec ok h ha

/-- stream_controller.rs:92-99 -/
theorem sinkError_spec (ok : L.Ok) (h : Rel L fresh [] c x out w) (e : Nat) :
    WP (L.sc.sinkError e) w (fun w' => Rel L fresh [] (c.sinkError e).1 x (out ++ (c.sinkError e).2) w') := by
  simp only [Sctl.sinkError, Lay.sc]
  refine wp_obsIsSub h.root ?_
  cases ha : c.alive with
  | true =>
    simp only [rootObs, Obs.isSub, Option.isSome_some, Bool.and_self, ↓reduceIte, Ctl.sinkError, ha]
    refine root_deliver h ha (.error e) ?_
    exact finalize_spec (c := { c with alive := false }) ok (h.rootTerminal ok (.error e)) rfl
  | false =>
    simp only [rootObs, Obs.isSub, Option.isSome_none, Bool.false_and, Bool.false_eq_true, ↓reduceIte,
      Ctl.sinkError, ha, List.append_nil]
    exact finalize_spec ok h ha

/-- stream_controller.rs:117-122 -/
theorem sinkCompleteForce_spec (ok : L.Ok) (h : Rel L fresh [] c x out w) :
    WP L.sc.sinkCompleteForce w
      (fun w' => Rel L fresh [] c.sinkCompleteForce.1 x (out ++ c.sinkCompleteForce.2) w') := by
  simp only [Sctl.sinkCompleteForce, Lay.sc]
  refine wp_obsIsSub h.root ?_
  cases ha : c.alive with
  | true =>
    simp only [rootObs, Obs.isSub, Option.isSome_some, Bool.and_self, ↓reduceIte, Ctl.sinkCompleteForce, ha]
    refine root_deliver h ha .complete ?_
    exact finalize_spec (c := { c with alive := false }) ok (h.rootTerminal ok .complete) rfl
  | false =>
    simp only [rootObs, Obs.isSub, Option.isSome_none, Bool.false_and, Bool.false_eq_true, ↓reduceIte,
      Ctl.sinkCompleteForce, ha, List.append_nil]
    exact finalize_spec ok h ha

end Rx.CRef
