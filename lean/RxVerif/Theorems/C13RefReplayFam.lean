import RxVerif.Theorems.C13RefReplayHooks
/-
C13-REF, replay: what the user-level steps (`subscribe` / `unsubscribe` of a test user on the ReplaySubject of the
connectable) need of the simulation relation.  They never look at the source side, so they are proved once, for any
relation `Rel` that offers these operations (`RFam`); the hot relation `RelRp` and the cold one are instances.
-/
namespace Rx.CRef
open Rx.Sim Rx.SubjM Rx.Ref Rx.RefR

def LayR.store (L : LayR) (a : Nat) : LayR := { L with acs := L.acs ++ [a] }

/-- the record of a subscription that `subscribeA .replay` has just registered under serial `s1` -/
def regRec (s1 : Nat) : ObsSt := { seen := true, alive := true, hook := true, inAlive := true, inHook := some s1 }

def LayR.reg (L : LayR) (w : World) : LayR :=
  ⟨L.roots ++ [w.obs.length], L.fwds ++ [w.obs.length + 1], L.sbs ++ [w.cells.length], L.acs⟩

def regWorld (L : LayR) (w : World) (observers : List (Nat × Nat)) (serial : Nat) : World :=
  { w with
    obs := w.obs ++ [rootOfL w.cells.length w.users.length (regRec (serial + 1)),
                     fwdOfL w.obs.length (regRec (serial + 1))]
    users := w.users ++ [⟨w.obs.length, noReact, false, true⟩]
    cells := ((w.cells ++ [Data.lnil]).set 3 (.int ((serial + 1 : Nat) : Int))).set 2
      (encMap (mapL L observers ++ [(serial + 1, w.obs.length + 1)])) }

abbrev RRel := LayR → List Nat → List Nat → List Bool → Option Nat → Option Nat → List (LockId × Bool) → World →
  ConnM.State → Prop

structure RFam where
  src : ConnM.Src
  Rel : RRel
  ur : ∀ {L cobs cacs armed pend unst Hd w st}, Rel L cobs cacs armed pend unst Hd w st →
    URr L cobs cacs pend unst Hd st.connecting st.subscription st.cancelled w st.sub
  held : ∀ {L cobs cacs armed pend unst Hd w st}, Rel L cobs cacs armed pend unst Hd w st → SlotReads w.held
  held_swap : ∀ {L cobs cacs armed pend unst Hd Hd' w w' st}, Rel L cobs cacs armed pend unst Hd w st →
    w' = { w with held := Hd' } → SlotReads Hd' → Rel L cobs cacs armed pend unst Hd' w' st
  ready : ∀ {L cobs cacs armed unst Hd w st n}, Rel L cobs cacs armed (some n) unst Hd w st →
    Rel L cobs cacs armed none unst Hd (w.setUser n fun u => { u with ready := true }) st
  registerUser : ∀ {L cobs cacs armed w st}, Rel L cobs cacs armed none none [] w st →
    Rel (L.reg w) cobs cacs armed (some L.roots.length) (some L.roots.length) []
      (regWorld L w st.sub.observers st.sub.serial)
      { st with sub := { st.sub with serial := st.sub.serial + 1
                                     observers := st.sub.observers ++ [(st.sub.serial + 1, L.roots.length)]
                                     obs := upd st.sub.obs L.roots.length (regRec (st.sub.serial + 1)) } }
  patchUser : ∀ {L cobs cacs armed pend unst Hd w st}, Rel L cobs cacs armed pend unst Hd w st →
    ∀ {o : Nat}, o < L.roots.length → ∀ (w' : World) (r' : ObsSt) (O' : List (Nat × Nat)),
    w'.status = w.status → w'.held = w.held → w'.slots = w.slots → w'.obsvs = w.obsvs →
    w'.obs.length = w.obs.length → w'.cells.length = w.cells.length →
    w'.cells[2]? = some (encMap (mapL L O')) →
    (∀ i, i ≠ 2 → i ≠ rootAt L.acs o → w'.cells[i]? = w.cells[i]?) →
    w'.cells[0]? = w.cells[0]? →
    (unst ≠ some o → w'.cells[rootAt L.acs o]? = some (.bool r'.armed)) →
    (unst = some o → r'.armed = false) →
    w'.users.length = w.users.length →
    (∀ i, i ≠ o → w'.users[i]? = w.users[i]?) →
    (∃ rd, w'.users[o]? = some ⟨rootAt L.roots o, noReact, rd, r'.hook⟩ ∧ (pend ≠ some o → rd = true)) →
    (∀ i, i ≠ rootAt L.roots o → i ≠ rootAt L.fwds o → w'.obs[i]? = w.obs[i]?) →
    (∀ u, u ≠ o → logOf w' u = logOf w u) →
    w'.obs[rootAt L.roots o]? = some (rootOfL (rootAt L.sbs o) o r') →
    w'.obs[rootAt L.fwds o]? = some (fwdOfL (rootAt L.roots o) r') →
    logOf w' o = r'.log → r'.seen = true → (r'.hook = false → r'.alive = false) →
    (∀ p ∈ O', p.1 ≤ st.sub.serial) → (∀ p ∈ O', p.2 < L.roots.length) →
    probesOf w' = probesOf w →
    Rel L cobs cacs armed pend unst Hd w' { st with sub := { st.sub with observers := O', obs := upd st.sub.obs o r' } }
  storeUser : ∀ {L cobs cacs armed pend Hd w st n}, Rel L cobs cacs armed pend (some n) Hd w st →
    ∀ (w' : World) (r' : ObsSt) (O' : List (Nat × Nat)),
    w'.status = w.status → w'.held = w.held → w'.slots = w.slots → w'.obsvs = w.obsvs →
    w'.obs.length = w.obs.length → w'.cells.length = w.cells.length + 1 →
    w'.cells[2]? = some (encMap (mapL L O')) →
    (∀ i, i ≠ 2 → i ≠ rootAt L.sbs n → i < w.cells.length → w'.cells[i]? = w.cells[i]?) →
    w'.cells[rootAt L.sbs n]? = some (handleL (L.store w.cells.length) n) →
    w'.cells[w.cells.length]? = some (.bool r'.armed) →
    w'.users = w.users →
    (∀ i, i ≠ rootAt L.roots n → i ≠ rootAt L.fwds n → w'.obs[i]? = w.obs[i]?) →
    (∀ u, u ≠ n → logOf w' u = logOf w u) →
    w'.obs[rootAt L.roots n]? = some (rootOfL (rootAt L.sbs n) n r') →
    w'.obs[rootAt L.fwds n]? = some (fwdOfL (rootAt L.roots n) r') →
    logOf w' n = r'.log → r'.hook = (st.sub.obs n).hook → r'.seen = true → (r'.hook = false → r'.alive = false) →
    (∀ p ∈ O', p.1 ≤ st.sub.serial) → (∀ p ∈ O', p.2 < L.roots.length) →
    probesOf w' = probesOf w →
    Rel (L.store w.cells.length) cobs cacs armed pend none Hd w'
      { st with sub := { st.sub with observers := O', obs := upd st.sub.obs n r' } }
  onUnsubHook : ∀ {L cobs cacs armed pend unst Hd w st}, Rel L cobs cacs armed pend unst Hd w st → ∀ len0 : Nat,
    WP (onUnsubHook rcR (.int (len0 : Nat))) w (fun w' => ∃ armed',
      Rel L cobs cacs armed' pend unst Hd w' (ConnM.onUnsubscribe st (some len0)))
  onSubHook : ∀ {L cobs cacs armed pend unst Hd w st}, Rel L cobs cacs armed pend unst Hd w st → ∀ len1 : Nat,
    WP (onSubHook rcR srcC fnR feR fcR (.int (len1 : Nat))) w (fun w' => ∃ cobs' cacs' armed',
      Rel L cobs' cacs' armed' pend unst Hd w' (ConnM.onSubscribe .replay src st (some len1)))

end Rx.CRef
