import RxVerif.Kernel.SubjM
/-
C10 — subjects.  Model: RxVerif/Kernel/SubjM.lean.  Everything is proved for ALL call sequences
(any number of observers / values) by invariants over `SubjM.step`.
-/
namespace Rx.SubjM

/-! ## basic facts -/

@[simp] theorem upd_same (f : Nat → ObsSt) (o : Nat) (r : ObsSt) : upd f o r o = r := by simp [upd]
@[simp] theorem upd_other (f : Nat → ObsSt) (o o' : Nat) (r : ObsSt) (h : o' ≠ o) : upd f o r o' = f o' := by
  simp [upd, h]
theorem upd_apply (f : Nat → ObsSt) (o o' : Nat) (r : ObsSt) : upd f o r o' = if o' = o then r else f o' := rfl

def Kind.isAsync : Kind → Bool
  | .async => true
  | _ => false

/-- fields the inner observer's callbacks never touch -/
theorem recvK_seen (k : Kind) (ev : Ev) (r : ObsSt) : (recvK k ev r).seen = r.seen := by
  cases k <;> cases ev <;> rfl
theorem recvK_hook (k : Kind) (ev : Ev) (r : ObsSt) : (recvK k ev r).hook = r.hook := by
  cases k <;> cases ev <;> rfl
theorem recvK_inHook (k : Kind) (ev : Ev) (r : ObsSt) (s : Nat) (h : (recvK k ev r).inHook = some s) :
    r.inHook = some s := by
  cases k <;> cases ev <;> simp_all [recvK, ObsSt.recv] <;> grind
theorem recvK_inHook_next (k : Kind) (v : Data) (r : ObsSt) : (recvK k (.next v) r).inHook = r.inHook := by
  cases k <;> rfl
theorem recvK_default (k : Kind) (ev : Ev) : recvK k ev {} = {} := by
  cases k <;> cases ev <;> simp [recvK, ObsSt.recv]
theorem recvK_alive_next (k : Kind) (v : Data) (r : ObsSt) : (recvK k (.next v) r).alive = r.alive := by
  cases k <;> simp [recvK, ObsSt.recv, Ev.isTerminal]
theorem recvK_inAlive_next (k : Kind) (v : Data) (r : ObsSt) : (recvK k (.next v) r).inAlive = r.inAlive := by
  cases k <;> simp [recvK, ObsSt.recv, Ev.isTerminal]
theorem recvK_armed_next (k : Kind) (v : Data) (r : ObsSt) : (recvK k (.next v) r).armed = r.armed := by
  cases k <;> simp [recvK, ObsSt.recv, Ev.isTerminal]
/-- a dead subscriber stays dead and records nothing -/
theorem recvK_dead (k : Kind) (ev : Ev) (r : ObsSt) (h : r.alive = false) :
    (recvK k ev r).alive = false ∧ (recvK k ev r).log = r.log := by
  cases k <;> cases ev <;> simp [recvK, ObsSt.recv, h]

theorem deliver_apply (k : Kind) (ev : Ev) (l : List (Nat × Nat)) (f : Nat → ObsSt) (o : Nat)
    (nd : (l.map (·.2)).Nodup) :
    deliver k ev l f o = if o ∈ l.map (·.2) then recvK k ev (f o) else f o := by
  induction l generalizing f with
  | nil => simp [deliver]
  | cons p rest ih =>
    simp only [List.map_cons, List.nodup_cons] at nd
    simp only [deliver, ih _ nd.2, List.map_cons, List.mem_cons]
    by_cases h : o = p.2
    · subst h; simp [nd.1]
    · simp only [upd_other _ _ _ _ h, h, false_or]

/-- a property every callback preserves survives a whole delivery round (no freshness needed) -/
theorem deliver_pres (k : Kind) (ev : Ev) (P : ObsSt → Prop) (hP : ∀ r, P r → P (recvK k ev r))
    (l : List (Nat × Nat)) (f : Nat → ObsSt) (hf : ∀ o, P (f o)) : ∀ o, P (deliver k ev l f o) := by
  induction l generalizing f with
  | nil => simpa [deliver] using hf
  | cons p rest ih =>
    intro o
    simp only [deliver]
    apply ih
    intro o'
    by_cases h : o' = p.2
    · subst h; simpa using hP _ (hf _)
    · simpa [upd_other _ _ _ _ h] using hf o'


/-! ## the structural invariant (holds between any two callbacks, also inside a `subscribe`) -/

theorem mem_registered (st : State) (o : Nat) : o ∈ registered st ↔ ∃ s, (s, o) ∈ st.observers := by
  simp [registered]

structure Inv (k : Kind) (st : State) : Prop where
  /-- the registered observer's fn_on_unsubscribe removes exactly its own map entry -/
  hookOfReg : ∀ (s o : Nat), (s, o) ∈ st.observers → (st.obs o).inHook = some s
  hookLe : ∀ (o s : Nat), (st.obs o).inHook = some s → s ≤ st.serial
  hookInj : ∀ (o o' s : Nat), (st.obs o).inHook = some s → (st.obs o').inHook = some s → o = o'
  nodup : (registered st).Nodup
  unseen : ∀ (o : Nat), (st.obs o).seen = false → st.obs o = {}
  regInAlive : ∀ (o : Nat), o ∈ registered st → k.isPlain = false → (st.obs o).inAlive = true
  regAlive : ∀ (o : Nat), o ∈ registered st → k.isReplay = false → (st.obs o).alive = true
  /-- (not replay: there `sbsc` is stored only after the hand-over, see `Armed`) unsubscribing reaches the map -/
  regHook : ∀ (o : Nat), o ∈ registered st → k.isReplay = false →
    (st.obs o).hook = true ∧ (k.isPlain = true ∨ (st.obs o).armed = true)

theorem Inv.regSeen {k st} (h : Inv k st) (o : Nat) (ho : o ∈ registered st) : (st.obs o).seen = true := by
  rcases (mem_registered st o).1 ho with ⟨s, hs⟩
  have h1 := h.hookOfReg s o hs
  cases hseen : (st.obs o).seen with
  | true => rfl
  | false => rw [h.unseen o hseen] at h1; simp at h1

theorem inv_init (k : Kind) : Inv k (init k) := by
  cases k <;> constructor <;> simp [init, registered]

theorem emit_obs {k st} (h : Inv k st) (ev : Ev) (o : Nat) :
    (emit k st ev).obs o = if o ∈ registered st then recvK k ev (st.obs o) else st.obs o :=
  deliver_apply k ev st.observers st.obs o h.nodup

@[simp] theorem emit_observers (k st) (ev : Ev) :
    (emit k st ev).observers = if ev.isTerminal then [] else st.observers := rfl
@[simp] theorem emit_serial (k st) (ev : Ev) : (emit k st ev).serial = st.serial := rfl

theorem emit_registered (k st) (ev : Ev) :
    registered (emit k st ev) = if ev.isTerminal then [] else registered st := by
  simp only [registered, emit_observers]; split <;> simp

theorem Inv.emit {k st} (h : Inv k st) (ev : Ev) : Inv k (emit k st ev) := by
  have hobs := emit_obs h ev
  constructor
  · intro s o hm
    have hnt : ev.isTerminal = false := by
      cases ht : ev.isTerminal with
      | false => rfl
      | true => simp [ht] at hm
    simp only [emit_observers, hnt] at hm
    have hr : o ∈ registered st := (mem_registered st o).2 ⟨s, hm⟩
    rw [hobs, if_pos hr]
    cases ev with
    | next v => rw [recvK_inHook_next]; exact h.hookOfReg s o hm
    | error e => simp [Ev.isTerminal] at hnt
    | complete => simp [Ev.isTerminal] at hnt
  · intro o s hs
    rw [hobs] at hs
    simp only [emit_serial]
    split at hs
    · exact h.hookLe o s (recvK_inHook _ _ _ _ hs)
    · exact h.hookLe o s hs
  · intro o o' s h1 h2
    rw [hobs] at h1 h2
    have h1' : (st.obs o).inHook = some s := by split at h1; exact recvK_inHook _ _ _ _ h1; exact h1
    have h2' : (st.obs o').inHook = some s := by split at h2; exact recvK_inHook _ _ _ _ h2; exact h2
    exact h.hookInj o o' s h1' h2'
  · rw [emit_registered]; split
    · simp
    · exact h.nodup
  · intro o hs
    rw [hobs] at hs ⊢
    split at hs
    · rw [recvK_seen] at hs; rw [h.unseen o hs, recvK_default]; simp
    · simp [h.unseen o hs, recvK_default]
  · intro o ho hk
    rw [emit_registered] at ho
    cases ev with
    | next v =>
      simp [Ev.isTerminal] at ho
      rw [hobs, if_pos ho, recvK_inAlive_next]; exact h.regInAlive o ho hk
    | error e => simp [Ev.isTerminal] at ho
    | complete => simp [Ev.isTerminal] at ho
  · intro o ho hk
    rw [emit_registered] at ho
    cases ev with
    | next v =>
      simp [Ev.isTerminal] at ho
      rw [hobs, if_pos ho, recvK_alive_next]; exact h.regAlive o ho hk
    | error e => simp [Ev.isTerminal] at ho
    | complete => simp [Ev.isTerminal] at ho
  · intro o ho hk
    rw [emit_registered] at ho
    cases ev with
    | next v =>
      simp [Ev.isTerminal] at ho
      rw [hobs, if_pos ho, recvK_hook, recvK_armed_next]; exact h.regHook o ho hk
    | error e => simp [Ev.isTerminal] at ho
    | complete => simp [Ev.isTerminal] at ho

/-! ### `emitK`: the call-level `next / error / complete` (for `.async`: `AsyncSubject`'s own methods) -/

theorem emitK_of_not_async (k : Kind) (hk : k.isAsync = false) (st : State) (ev : Ev) :
    emitK k st ev = emit k st ev := by
  cases k <;> first | rfl | cases hk

/-- anything the inner Subject's broadcasts preserve and that does not look at `last_item` / `ended` survives a call -/
theorem emitK_pres {k : Kind} (P : State → Prop) (hemit : ∀ st ev, P st → P (emit k st ev))
    (hset : ∀ (st : State) (li : Option Data) (en : Option Ended), P st → P { st with lastItem := li, ended := en })
    (st : State) (ev : Ev) (h : P st) : P (emitK k st ev) := by
  cases k with
  | async =>
    unfold emitK
    dsimp only
    split
    · exact h
    · cases ev with
      | next v => exact hset st (some v) st.ended h
      | error e => exact hemit _ _ (hset st st.lastItem (some (.failed e)) h)
      | complete =>
        dsimp only
        cases hli : st.lastItem with
        | none => exact hemit _ _ (hset st none (some .completed) h)
        | some v => exact hemit _ _ (hemit _ _ (hset st (some v) (some .completed) h))
  | plain => exact hemit _ _ h
  | behavior v => exact hemit _ _ h
  | replay => exact hemit _ _ h

theorem Inv.setMem {k st} (h : Inv k st) (li : Option Data) (en : Option Ended) :
    Inv k { st with lastItem := li, ended := en } :=
  ⟨h.hookOfReg, h.hookLe, h.hookInj, h.nodup, h.unseen, h.regInAlive, h.regAlive, h.regHook⟩

theorem Inv.emitK {k st} (h : Inv k st) (ev : Ev) : Inv k (emitK k st ev) :=
  emitK_pres (Inv k) (fun _ ev h => h.emit ev) (fun _ li en h => h.setMem li en) st ev h

/-- overwrite one record without touching what the map relies on -/
theorem Inv.setObs {k st} (h : Inv k st) (o : Nat) (r : ObsSt) (hseen : r.seen = true)
    (hhook : r.inHook = (st.obs o).inHook)
    (hin : o ∈ registered st → k.isPlain = false → r.inAlive = true)
    (hal : o ∈ registered st → k.isReplay = false → r.alive = true)
    (hhk : o ∈ registered st → k.isReplay = false → r.hook = true ∧ (k.isPlain = true ∨ r.armed = true)) :
    Inv k { st with obs := upd st.obs o r } := by
  obtain ⟨h1, h2, h3, h4, h5, h6, h7, h8⟩ := h
  constructor
  · intro s o' hm; simp only [upd_apply]; split
    · subst_vars; rw [hhook]; exact h1 _ _ hm
    · exact h1 _ _ hm
  · intro o' s; simp only [upd_apply]; split
    · subst_vars; rw [hhook]; exact h2 _ _
    · exact h2 _ _
  · intro o1 o2 s; simp only [upd_apply]
    have := h3 o1 o2 s; have := h3 o o2 s; have := h3 o1 o s
    grind
  · exact h4
  · intro o'; simp only [upd_apply]; split
    · simp [hseen]
    · exact h5 o'
  · intro o' ho' hk; simp only [upd_apply]; split
    · subst_vars; exact hin ho' hk
    · exact h6 o' ho' hk
  · intro o' ho' hk; simp only [upd_apply]; split
    · subst_vars; exact hal ho' hk
    · exact h7 o' ho' hk
  · intro o' ho' hk; simp only [upd_apply]; split
    · subst_vars; exact hhk ho' hk
    · exact h8 o' ho' hk

theorem Inv.unseen_not_reg {k st} (h : Inv k st) (o : Nat) (hs : (st.obs o).seen = false) :
    o ∉ registered st := by
  intro ho; have := h.regSeen o ho; simp [hs] at this

theorem register_registered (st : State) (o : Nat) (r : ObsSt) :
    registered (register st o r) = registered st ++ [o] := by
  simp [registered, register]

theorem register_obs (st : State) (o : Nat) (r : ObsSt) (o' : Nat) :
    (register st o r).obs o' = if o' = o then { r with inHook := some (st.serial + 1) } else st.obs o' := rfl

theorem Inv.register {k st} (h : Inv k st) (o : Nat) (r : ObsSt) (hs : (st.obs o).seen = false)
    (hseen : r.seen = true)
    (hin : k.isPlain = false → r.inAlive = true)
    (hal : k.isReplay = false → r.alive = true)
    (hhk : k.isReplay = false → r.hook = true ∧ (k.isPlain = true ∨ r.armed = true)) :
    Inv k (register st o r) := by
  have hnr := h.unseen_not_reg o hs
  have hdef := h.unseen o hs
  obtain ⟨h1, h2, h3, h4, h5, h6, h7, h8⟩ := h
  constructor
  · intro s o' hm
    simp only [SubjM.register, List.mem_append, List.mem_singleton, Prod.mk.injEq] at hm
    rw [register_obs]
    rcases hm with hm | ⟨rfl, rfl⟩
    · have : o' ≠ o := by
        intro e; subst e; exact hnr ((mem_registered st o').2 ⟨s, hm⟩)
      simp [this, h1 _ _ hm]
    · simp
  · intro o' s; rw [register_obs]; simp only [SubjM.register]; split
    · simp; omega
    · intro hh; have := h2 _ _ hh; omega
  · intro o1 o2 s; simp only [register_obs]
    have := h3 o1 o2 s; have := h2 o1 s; have := h2 o2 s
    grind
  · rw [register_registered]
    simp only [List.nodup_append, List.nodup_cons, List.not_mem_nil, not_false_eq_true, List.nodup_nil,
      and_self, List.mem_singleton, true_and]
    exact ⟨h4, by intro a ha b hb; subst hb; intro e; subst e; exact hnr ha⟩
  · intro o'; rw [register_obs]; split
    · simp [hseen]
    · exact h5 o'
  · intro o' ho' hk; rw [register_registered] at ho'; rw [register_obs]; split
    · exact hin hk
    · simp only [List.mem_append, List.mem_singleton] at ho'
      rcases ho' with ho' | ho'
      · exact h6 o' ho' hk
      · contradiction
  · intro o' ho' hk; rw [register_registered] at ho'; rw [register_obs]; split
    · exact hal hk
    · simp only [List.mem_append, List.mem_singleton] at ho'
      rcases ho' with ho' | ho'
      · exact h7 o' ho' hk
      · contradiction
  · intro o' ho' hk; rw [register_registered] at ho'; rw [register_obs]; split
    · exact hhk hk
    · simp only [List.mem_append, List.mem_singleton] at ho'
      rcases ho' with ho' | ho'
      · exact h8 o' ho' hk
      · contradiction

theorem Inv.subscribeA {k st} (h : Inv k st) (o : Nat) : Inv k (subscribeA k st o).1 := by
  unfold SubjM.subscribeA
  cases hs : (st.obs o).seen with
  | true => simpa using h
  | false =>
    have hnr := h.unseen_not_reg o hs
    have hdef := h.unseen o hs
    simp only [Bool.false_eq_true, ↓reduceIte]
    cases k with
    | plain => exact h.register o _ hs rfl (by simp [Kind.isPlain]) (by simp) (by simp [Kind.isPlain])
    | behavior v =>
      dsimp only
      split
      · exact h.setObs o _ rfl (by simp [hdef]) (fun hr => absurd hr hnr) (fun hr => absurd hr hnr)
          (fun hr => absurd hr hnr)
      · split
        · exact h.setObs o _ rfl (by simp [hdef]) (fun hr => absurd hr hnr) (fun hr => absurd hr hnr)
            (fun hr => absurd hr hnr)
        · exact h.register o _ hs rfl (by simp) (by simp) (by simp)
    | replay => exact h.register o _ hs rfl (by simp) (by simp) (by simp [Kind.isReplay])
    | async =>
      dsimp only
      split
      · exact h.setObs o _ rfl (by simp [hdef]) (fun hr => absurd hr hnr) (fun hr => absurd hr hnr)
          (fun hr => absurd hr hnr)
      · exact h.setObs o _ rfl (by simp [hdef]) (fun hr => absurd hr hnr) (fun hr => absurd hr hnr)
          (fun hr => absurd hr hnr)
      · exact h.register o _ hs rfl (by simp [Kind.isPlain]) (by simp) (by simp [Kind.isPlain])

theorem recv_fields (r : ObsSt) (ev : Ev) :
    (r.recv ev).seen = r.seen ∧ (r.recv ev).hook = r.hook ∧ (r.recv ev).inAlive = r.inAlive ∧
    (r.recv ev).inHook = r.inHook ∧ (r.recv ev).armed = r.armed := by
  simp [ObsSt.recv]

theorem foldRecv_fields (hist : List Data) (r : ObsSt) :
    let r1 := hist.foldl (fun r x => r.recv (.next x)) r
    r1.seen = r.seen ∧ r1.hook = r.hook ∧ r1.inAlive = r.inAlive ∧ r1.inHook = r.inHook ∧
    r1.armed = r.armed := by
  induction hist generalizing r with
  | nil => simp
  | cons x xs ih => simp only [List.foldl_cons]; have := ih (r.recv (.next x)); simp_all [ObsSt.recv]

theorem handOver_fields (r : ObsSt) (hist : List Data) (we : Option Nat) (wc : Bool) :
    (handOver r hist we wc).seen = r.seen ∧ (handOver r hist we wc).hook = r.hook ∧
    (handOver r hist we wc).inAlive = r.inAlive ∧ (handOver r hist we wc).inHook = r.inHook ∧
    (handOver r hist we wc).armed = r.armed := by
  have h := foldRecv_fields hist r
  unfold handOver
  cases we with
  | some e => simpa [ObsSt.recv] using h
  | none => cases wc <;> simpa [ObsSt.recv] using h

theorem Inv.subscribeH {k st} (h : Inv k st) (o : Nat) (p : Pending) (hk : p.fresh = true → (st.obs o).seen = true) :
    Inv k (subscribeH k st o p) := by
  unfold SubjM.subscribeH
  cases k with
  | replay =>
    dsimp only
    split
    · rename_i hf
      have hf' := handOver_fields (st.obs o) p.history st.wasError st.wasCompleted
      refine h.setObs o _ ?_ ?_ ?_ ?_ ?_
      · simp [hf'.1, hk hf]
      · simp [hf'.2.2.2.1]
      · intro hr _; simp [hf'.2.2.1]; exact h.regInAlive o hr rfl
      · intro _ hh; simp [Kind.isReplay] at hh
      · intro _ hh; simp [Kind.isReplay] at hh
    · exact h
  | plain => exact h
  | behavior v => exact h
  | async => exact h


/-! ### unsubscribe -/

def reaches (k : Kind) (r : ObsSt) : Bool := r.seen && r.hook && (k.isPlain || r.armed)

theorem unsub_observers (k : Kind) (st : State) (o : Nat) :
    (unsubscribeN k st o).1.observers =
      match (st.obs o).inHook with
      | some s => if reaches k (st.obs o) then st.observers.filter (fun p => p.1 != s) else st.observers
      | none => st.observers := by
  unfold unsubscribeN reaches
  cases h1 : (st.obs o).seen <;> cases h2 : (st.obs o).hook <;> cases h3 : (st.obs o).inHook <;> simp [h1, h2, h3]

theorem unsub_obs (k : Kind) (st : State) (o o' : Nat) :
    (unsubscribeN k st o).1.obs o' =
      if o' = o ∧ (st.obs o).seen = true then
        { st.obs o with
          alive := false
          hook := false
          inAlive := (st.obs o).inAlive && !((st.obs o).hook && (k.isPlain || (st.obs o).armed))
          armed := (st.obs o).armed && !(st.obs o).hook
          inHook := if (st.obs o).hook && (k.isPlain || (st.obs o).armed) then none else (st.obs o).inHook }
      else st.obs o' := by
  unfold unsubscribeN
  cases hs : (st.obs o).seen <;> simp [upd_apply]

theorem unsub_serial (k : Kind) (st : State) (o : Nat) : (unsubscribeN k st o).1.serial = st.serial := by
  unfold unsubscribeN; split <;> rfl

theorem unsub_mem {k st} (h : Inv k st) (o o' : Nat) :
    o' ∈ registered (unsubscribeN k st o).1 ↔ o' ∈ registered st ∧ ¬(o' = o ∧ reaches k (st.obs o) = true) := by
  simp only [mem_registered, unsub_observers]
  have h1 := h.hookOfReg
  have h3 := h.hookInj
  cases hh : (st.obs o).inHook with
  | none =>
    simp only
    constructor
    · rintro ⟨s, hs⟩
      refine ⟨⟨s, hs⟩, ?_⟩
      rintro ⟨rfl, _⟩
      have := h1 _ _ hs; simp [hh] at this
    · rintro ⟨⟨s, hs⟩, _⟩; exact ⟨s, hs⟩
  | some s0 =>
    simp only
    cases hr : reaches k (st.obs o) with
    | false => simp
    | true =>
      simp only [↓reduceIte, List.mem_filter, bne_iff_ne, ne_eq, and_true]
      constructor
      · rintro ⟨s, hs, hne⟩
        refine ⟨⟨s, hs⟩, ?_⟩
        rintro rfl
        have := h1 _ _ hs; rw [hh] at this; simp at this; exact hne this.symm
      · rintro ⟨⟨s, hs⟩, hne⟩
        refine ⟨s, hs, ?_⟩
        rintro rfl
        exact hne (h3 o' o s (h1 _ _ hs) hh)

theorem Inv.unsubscribeN {k st} (h : Inv k st) (o : Nat) : Inv k (unsubscribeN k st o).1 := by
  have hmem := unsub_mem h o
  have hobs := unsub_obs k st o
  obtain ⟨h1, h2, h3, h4, h5, h6, h7, h8⟩ := h
  have hsub : ∀ s o', (s, o') ∈ (SubjM.unsubscribeN k st o).1.observers → (s, o') ∈ st.observers := by
    intro s o'; rw [unsub_observers]
    split
    · split
      · intro hm; exact (List.mem_filter.1 hm).1
      · exact id
    · exact id
  constructor
  · intro s o' hm
    have hm0 := hsub s o' hm
    have hr : o' ∈ registered (SubjM.unsubscribeN k st o).1 := (mem_registered _ _).2 ⟨s, hm⟩
    have := (hmem o').1 hr
    rw [hobs]
    have := h1 s o' hm0
    unfold reaches at *
    split
    · grind
    · assumption
  · intro o' s; rw [hobs, unsub_serial]; have := h2 o' s; have := h2 o s; grind
  · intro o1 o2 s; simp only [hobs]; have := h3 o1 o2 s; have := h3 o o2 s; have := h3 o1 o s; grind
  · have : (registered (SubjM.unsubscribeN k st o).1).Sublist (registered st) := by
      unfold registered; rw [unsub_observers]
      split
      · split
        · exact List.Sublist.map _ List.filter_sublist
        · exact List.Sublist.refl _
      · exact List.Sublist.refl _
    exact this.nodup h4
  · intro o'; rw [hobs]; have := h5 o'; grind
  · intro o' ho' hk; have := (hmem o').1 ho'; rw [hobs]; have := h6 o' this.1 hk
    unfold reaches at *; grind
  · intro o' ho' hk; have hm' := (hmem o').1 ho'; rw [hobs]; have := h7 o' hm'.1 hk; have := h8 o' hm'.1 hk
    have := h5 o'
    unfold reaches at *; grind
  · intro o' ho' hk; have hm' := (hmem o').1 ho'; rw [hobs]; have := h8 o' hm'.1 hk
    have := h5 o'
    unfold reaches at *; grind


/-! ### subscribe: effect on the records -/

theorem subscribeA_seen (k : Kind) (st : State) (o : Nat) (hs : (st.obs o).seen = true) :
    subscribeA k st o = (st, {}) := by
  unfold subscribeA; simp [hs]

theorem subscribeA_obs_other (k : Kind) (st : State) (o o' : Nat) (hne : o' ≠ o) :
    (subscribeA k st o).1.obs o' = st.obs o' := by
  unfold subscribeA
  split
  · rfl
  · cases k with
    | behavior v =>
      dsimp only
      split
      · simp [hne]
      · split
        · simp [hne]
        · simp [register_obs, hne]
    | async => dsimp only; split <;> simp [register_obs, hne]
    | _ => simp [register_obs, hne]

theorem subscribeH_obs_other (k : Kind) (st : State) (o o' : Nat) (p : Pending) (hne : o' ≠ o) :
    (subscribeH k st o p).obs o' = st.obs o' := by
  unfold subscribeH
  cases k with
  | replay => dsimp only; split <;> simp [hne]
  | _ => rfl

theorem subscribeH_observers (k : Kind) (st : State) (o : Nat) (p : Pending) :
    (subscribeH k st o p).observers = st.observers := by
  unfold subscribeH
  cases k with
  | replay => dsimp only; split <;> rfl
  | _ => rfl

/-! ### `reap`: the forwarder of a subscriber that ended during the replay is taken out again -/

def reaped (r : ObsSt) : Bool := !r.alive && r.armed

theorem reap_observers (st : State) (o : Nat) :
    (reap st o).1.observers =
      match (st.obs o).inHook with
      | some s => if reaped (st.obs o) then st.observers.filter (fun p => p.1 != s) else st.observers
      | none => st.observers := rfl

theorem reap_obs (st : State) (o o' : Nat) :
    (reap st o).1.obs o' =
      if o' = o then
        { st.obs o with
          armed := (st.obs o).armed && (st.obs o).alive
          inAlive := (st.obs o).inAlive && !reaped (st.obs o)
          inHook := if reaped (st.obs o) then none else (st.obs o).inHook }
      else st.obs o' := rfl

theorem reap_obs_other (st : State) (o o' : Nat) (hne : o' ≠ o) : (reap st o).1.obs o' = st.obs o' := by
  rw [reap_obs, if_neg hne]

/-- what the subscriber itself has is untouched -/
theorem reap_obs_self (st : State) (o : Nat) :
    ((reap st o).1.obs o).seen = (st.obs o).seen ∧ ((reap st o).1.obs o).alive = (st.obs o).alive ∧
    ((reap st o).1.obs o).log = (st.obs o).log ∧ ((reap st o).1.obs o).hook = (st.obs o).hook := by
  rw [reap_obs, if_pos rfl]; exact ⟨rfl, rfl, rfl, rfl⟩

theorem reap_serial (st : State) (o : Nat) : (reap st o).1.serial = st.serial := rfl

theorem reap_sub (st : State) (o o' : Nat) (h : o' ∈ registered (reap st o).1) : o' ∈ registered st := by
  simp only [mem_registered, reap_observers] at *
  obtain ⟨s, hs⟩ := h
  refine ⟨s, ?_⟩
  split at hs
  · split at hs
    · exact (List.mem_filter.1 hs).1
    · exact hs
  · exact hs

theorem reap_mem {k st} (h : Inv k st) (o o' : Nat) :
    o' ∈ registered (reap st o).1 ↔ o' ∈ registered st ∧ ¬(o' = o ∧ reaped (st.obs o) = true) := by
  simp only [mem_registered, reap_observers]
  have h1 := h.hookOfReg
  have h3 := h.hookInj
  cases hh : (st.obs o).inHook with
  | none =>
    simp only
    constructor
    · rintro ⟨s, hs⟩
      refine ⟨⟨s, hs⟩, ?_⟩
      rintro ⟨rfl, _⟩
      have := h1 _ _ hs; simp [hh] at this
    · rintro ⟨⟨s, hs⟩, _⟩; exact ⟨s, hs⟩
  | some s0 =>
    simp only
    cases hr : reaped (st.obs o) with
    | false => simp
    | true =>
      simp only [↓reduceIte, List.mem_filter, bne_iff_ne, ne_eq, and_true]
      constructor
      · rintro ⟨s, hs, hne⟩
        refine ⟨⟨s, hs⟩, ?_⟩
        rintro rfl
        have := h1 _ _ hs; rw [hh] at this; simp at this; exact hne this.symm
      · rintro ⟨⟨s, hs⟩, hne⟩
        refine ⟨s, hs, ?_⟩
        rintro rfl
        exact hne (h3 o' o s (h1 _ _ hs) hh)

theorem Inv.reap {k st} (h : Inv k st) (o : Nat) : Inv k (reap st o).1 := by
  have hmem := reap_mem h o
  have hobs := reap_obs st o
  obtain ⟨h1, h2, h3, h4, h5, h6, h7, h8⟩ := h
  have hsub : ∀ s o', (s, o') ∈ (SubjM.reap st o).1.observers → (s, o') ∈ st.observers := by
    intro s o'; rw [reap_observers]
    split
    · split
      · intro hm; exact (List.mem_filter.1 hm).1
      · exact id
    · exact id
  constructor
  · intro s o' hm
    have hm0 := hsub s o' hm
    have hr : o' ∈ registered (SubjM.reap st o).1 := (mem_registered _ _).2 ⟨s, hm⟩
    have := (hmem o').1 hr
    rw [hobs]
    have := h1 s o' hm0
    split
    · grind
    · assumption
  · intro o' s; rw [hobs, reap_serial]; have := h2 o' s; have := h2 o s; grind
  · intro o1 o2 s; simp only [hobs]; have := h3 o1 o2 s; have := h3 o o2 s; have := h3 o1 o s; grind
  · have : (registered (SubjM.reap st o).1).Sublist (registered st) := by
      unfold registered; rw [reap_observers]
      split
      · split
        · exact List.Sublist.map _ List.filter_sublist
        · exact List.Sublist.refl _
      · exact List.Sublist.refl _
    exact this.nodup h4
  · intro o'; rw [hobs]; have := h5 o'; grind
  · intro o' ho' hk; have hm' := (hmem o').1 ho'; rw [hobs]; have := h6 o' hm'.1 hk
    grind
  · intro o' ho' hk; have hm' := (hmem o').1 ho'; rw [hobs]; have := h7 o' hm'.1 hk
    grind
  · intro o' ho' hk; have hm' := (hmem o').1 ho'; rw [hobs]; have := h8 o' hm'.1 hk; have := h7 o' hm'.1 hk
    grind

/-! ### `subscribeB` = hand-over, then `reap` (replay) -/

theorem subscribeB_fst (k : Kind) (st : State) (o : Nat) (p : Pending) :
    (subscribeB k st o p).1 =
      if k.isReplay && p.fresh then (reap (subscribeH k st o p) o).1 else subscribeH k st o p := by
  unfold subscribeB; split <;> rfl

theorem subscribeH_not_replay (k : Kind) (hk : k.isReplay = false) (st : State) (o : Nat) (p : Pending) :
    subscribeH k st o p = st := by
  cases k <;> simp_all [subscribeH, Kind.isReplay]

theorem subscribeH_not_fresh (k : Kind) (st : State) (o : Nat) (p : Pending) (hp : p.fresh = false) :
    subscribeH k st o p = st := by
  cases k <;> simp [subscribeH, hp]

theorem subscribeB_noop (k : Kind) (st : State) (o : Nat) (p : Pending) (h : (k.isReplay && p.fresh) = false) :
    subscribeB k st o p = (st, none) := by
  unfold subscribeB
  rw [if_neg (by simp [h])]
  cases hk : k.isReplay with
  | false => rw [subscribeH_not_replay k hk]
  | true => rw [subscribeH_not_fresh k st o p (by simpa [hk] using h)]

theorem subscribeB_obs_other (k : Kind) (st : State) (o o' : Nat) (p : Pending) (hne : o' ≠ o) :
    (subscribeB k st o p).1.obs o' = st.obs o' := by
  rw [subscribeB_fst]; split
  · rw [reap_obs_other _ _ _ hne, subscribeH_obs_other _ _ _ _ _ hne]
  · exact subscribeH_obs_other _ _ _ _ _ hne

/-- the subscriber's own view after the whole hand-over is what `subscribeH` left -/
theorem subscribeB_obs_self (k : Kind) (st : State) (o : Nat) (p : Pending) :
    ((subscribeB k st o p).1.obs o).seen = ((subscribeH k st o p).obs o).seen ∧
    ((subscribeB k st o p).1.obs o).alive = ((subscribeH k st o p).obs o).alive ∧
    ((subscribeB k st o p).1.obs o).log = ((subscribeH k st o p).obs o).log ∧
    ((subscribeB k st o p).1.obs o).hook = ((subscribeH k st o p).obs o).hook := by
  rw [subscribeB_fst]; split
  · exact reap_obs_self _ _
  · exact ⟨rfl, rfl, rfl, rfl⟩

theorem subscribeB_sub (k : Kind) (st : State) (o o' : Nat) (p : Pending)
    (h : o' ∈ registered (subscribeB k st o p).1) : o' ∈ registered st := by
  rw [subscribeB_fst] at h
  have hH : registered (subscribeH k st o p) = registered st := by simp [registered, subscribeH_observers]
  split at h
  · rw [← hH]; exact reap_sub _ _ _ h
  · rw [← hH]; exact h

theorem Inv.subscribeB {k st} (h : Inv k st) (o : Nat) (p : Pending) (hk : p.fresh = true → (st.obs o).seen = true) :
    Inv k (subscribeB k st o p).1 := by
  rw [subscribeB_fst]; split
  · exact (h.subscribeH o p hk).reap o
  · exact h.subscribeH o p hk

/-- others keep their place in the map -/
theorem subscribeB_mem_other {k st} (h : Inv k st) (o o' : Nat) (p : Pending)
    (hk : p.fresh = true → (st.obs o).seen = true) (hne : o' ≠ o) (hr : o' ∈ registered st) :
    o' ∈ registered (subscribeB k st o p).1 := by
  have hH : registered (subscribeH k st o p) = registered st := by simp [registered, subscribeH_observers]
  rw [subscribeB_fst]; split
  · exact (reap_mem (h.subscribeH o p hk) o o').2 ⟨by rw [hH]; exact hr, fun hh => hne hh.1⟩
  · rw [hH]; exact hr

theorem step_subscribe_seen (k : Kind) (st : State) (o : Nat) (hs : (st.obs o).seen = true) :
    step k st (.subscribe o) = st := by
  simp only [step, subscribeA_seen k st o hs]
  rw [subscribeB_noop k st o {} (by simp)]

theorem step_subscribe_other (k : Kind) (st : State) (o o' : Nat) (hne : o' ≠ o) :
    (step k st (.subscribe o)).obs o' = st.obs o' := by
  simp only [step]; rw [subscribeB_obs_other _ _ _ _ _ hne, subscribeA_obs_other _ _ _ _ hne]

/-- a fresh subscribe always marks the id as used -/
theorem subscribeA_marks (k : Kind) (st : State) (o : Nat) : ((subscribeA k st o).1.obs o).seen = true := by
  unfold subscribeA
  split
  · assumption
  · cases k with
    | behavior v =>
      dsimp only
      split
      · simp
      · split
        · simp
        · simp [register_obs]
    | async => dsimp only; split <;> simp [register_obs]
    | _ => simp [register_obs]

theorem subscribeA_fresh_seen (k : Kind) (st : State) (o : Nat) (_hf : (subscribeA k st o).2.fresh = true) :
    ((subscribeA k st o).1.obs o).seen = true := subscribeA_marks k st o

/-! ### `Good`: the invariant of whole calls -/

/-- unsubscribing a registered subscriber reaches the map entry (`sbsc` is stored) -/
def Armed (k : Kind) (st : State) : Prop :=
  ∀ o, o ∈ registered st → (st.obs o).hook = true ∧ (k.isPlain = true ∨ (st.obs o).armed = true)

structure Good (k : Kind) (st : State) : Prop where
  inv : Inv k st
  armed : Armed k st
  /-- every kind (replay included, since the reaping of subscribers ended by the hand-over): the map holds
      no subscriber that is no longer subscribed -/
  alive : ∀ (o : Nat), o ∈ registered st → (st.obs o).alive = true

theorem Inv.armed_of_not_replay {k st} (h : Inv k st) (hk : k.isReplay = false) : Armed k st :=
  fun o ho => h.regHook o ho hk

theorem good_init (k : Kind) : Good k (init k) :=
  ⟨inv_init k, by intro o ho; cases k <;> simp [init, registered] at ho,
   by intro o ho; cases k <;> simp [init, registered] at ho⟩

theorem subscribeA_registered (k : Kind) (st : State) (o : Nat) :
    registered (subscribeA k st o).1 =
      if (subscribeA k st o).2.fresh then registered st ++ [o] else registered st := by
  unfold subscribeA
  split
  · rfl
  · cases k with
    | behavior v =>
      dsimp only
      split
      · rfl
      · split
        · rfl
        · simp [register_registered]
    | async => dsimp only; split <;> first | rfl | simp [register_registered]
    | _ => simp [register_registered]

theorem subscribeA_sub (k : Kind) (st : State) (o o' : Nat) (h : o' ∈ registered (subscribeA k st o).1) :
    o' ∈ registered st ∨ o' = o := by
  rw [subscribeA_registered] at h; split at h
  · simpa using h
  · exact Or.inl h

theorem subscribeA_mono (k : Kind) (st : State) (o o' : Nat) (h : o' ∈ registered st) :
    o' ∈ registered (subscribeA k st o).1 := by
  rw [subscribeA_registered]; split <;> simp [h]

/-- `subscribe o'` never removes or adds anybody else -/
theorem step_subscribe_sub (k : Kind) (st : State) (o o' : Nat) (h : o' ∈ registered (step k st (.subscribe o))) :
    o' ∈ registered st ∨ o' = o :=
  subscribeA_sub k st o o' (subscribeB_sub _ _ _ _ _ h)

theorem step_subscribe_mono {k st} (hi : Inv k st) (o o' : Nat) (hne : o' ≠ o) (h : o' ∈ registered st) :
    o' ∈ registered (step k st (.subscribe o)) :=
  subscribeB_mem_other (hi.subscribeA o) o o' _ (subscribeA_fresh_seen k st o) hne (subscribeA_mono k st o o' h)

theorem Good.step {k st} (h : Good k st) (c : Call) : Good k (step k st c) := by
  have hinv : Inv k (SubjM.step k st c) := by
    cases c with
    | subscribe o => exact (h.inv.subscribeA o).subscribeB o _ (subscribeA_fresh_seen k st o)
    | unsubscribe o => exact h.inv.unsubscribeN o
    | next v => exact h.inv.emitK (.next v)
    | error e => exact h.inv.emitK (.error e)
    | complete => exact h.inv.emitK .complete
  cases hk : k.isReplay with
  | false => exact ⟨hinv, hinv.armed_of_not_replay hk, fun o ho => hinv.regAlive o ho hk⟩
  | true =>
    have hk' : k = .replay := by cases k <;> simp_all [Kind.isReplay]
    subst hk'
    have ha := h.armed
    have hal := h.alive
    suffices hs : ∀ o', o' ∈ registered (SubjM.step .replay st c) →
        ((SubjM.step .replay st c).obs o').hook = true ∧ ((SubjM.step .replay st c).obs o').armed = true ∧
        ((SubjM.step .replay st c).obs o').alive = true from
      ⟨hinv, fun o' ho' => ⟨(hs o' ho').1, Or.inr (hs o' ho').2.1⟩, fun o' ho' => (hs o' ho').2.2⟩
    have hold : ∀ o', o' ∈ registered st →
        (st.obs o').hook = true ∧ (st.obs o').armed = true ∧ (st.obs o').alive = true := by
      intro o' ho'
      have := ha o' ho'
      exact ⟨this.1, by simpa [Kind.isPlain] using this.2, hal o' ho'⟩
    cases c with
    | subscribe o =>
      intro o' ho'
      by_cases hne : o' = o
      · subst hne
        cases hs : (st.obs o').seen with
        | true => rw [step_subscribe_seen _ _ _ hs] at ho' ⊢; exact hold o' ho'
        | false =>
          -- the new subscriber: in the map after the hand-over means it was not reaped, i.e. it is alive
          have hA : subscribeA .replay st o' =
              (register st o' { seen := true, alive := true, hook := true, inAlive := true },
               { fresh := true, len := some (st.observers.length + 1), history := st.items }) := by
            simp [subscribeA, hs]
          have hiH := (h.inv.subscribeA o').subscribeH o' (subscribeA .replay st o').2 (subscribeA_fresh_seen _ st o')
          simp only [SubjM.step, subscribeB_fst, hA, Kind.isReplay, Bool.true_and, ↓reduceIte] at ho' ⊢
          rw [hA] at hiH
          simp only at hiH
          generalize hH : subscribeH .replay (register st o' { seen := true, alive := true, hook := true, inAlive := true }) o'
            { fresh := true, len := some (st.observers.length + 1), history := st.items } = H at hiH ho' ⊢
          have hHo : (H.obs o').hook = true ∧ (H.obs o').armed = true := by
            rw [← hH]; simp [subscribeH, register_obs, (handOver_fields _ _ _ _).2.1]
          have hm := (reap_mem hiH o' o').1 ho'
          have hnr : reaped (H.obs o') = false := by
            cases hr : reaped (H.obs o') with
            | false => rfl
            | true => exact absurd ⟨rfl, hr⟩ hm.2
          have hal' : (H.obs o').alive = true := by
            unfold reaped at hnr; simpa [hHo.2] using hnr
          have hs' := reap_obs_self H o'
          refine ⟨by rw [hs'.2.2.2]; exact hHo.1, ?_, by rw [hs'.2.1]; exact hal'⟩
          rw [reap_obs, if_pos rfl]; simp [hHo.2, hal']
      · rw [step_subscribe_other _ _ _ _ hne]
        rcases step_subscribe_sub _ _ _ _ ho' with h1 | h1
        · exact hold o' h1
        · exact absurd h1 hne
    | unsubscribe o =>
      intro o' ho'
      have hm := (unsub_mem h.inv o o').1 ho'
      have ho := hold o' hm.1
      have hseen := h.inv.regSeen o' hm.1
      have hne : o' ≠ o := by
        rintro rfl
        apply hm.2
        refine ⟨rfl, ?_⟩
        unfold reaches; simp [hseen, ho.1, ho.2.1]
      simp only [SubjM.step, unsub_obs]
      rw [if_neg (fun hh => hne hh.1)]
      exact ho
    | next v =>
      intro o' ho'
      simp [SubjM.step, emitK, emit_registered, Ev.isTerminal] at ho'
      simp only [SubjM.step, emitK, emit_obs h.inv, ho', if_true, recvK_hook, recvK_armed_next, recvK_alive_next]
      exact hold o' ho'
    | error e => intro o' ho'; simp [SubjM.step, emitK, emit_registered, Ev.isTerminal] at ho'
    | complete => intro o' ho'; simp [SubjM.step, emitK, emit_registered, Ev.isTerminal] at ho'

theorem Good.runFrom {k st} (h : Good k st) (cs : List Call) : Good k (runFrom k st cs) := by
  induction cs generalizing st with
  | nil => exact h
  | cons c cs ih => exact ih (h.step c)

theorem good_run (k : Kind) (cs : List Call) : Good k (run k cs) := (good_init k).runFrom cs

theorem runFrom_append (k : Kind) (st : State) (a b : List Call) :
    runFrom k st (a ++ b) = runFrom k (runFrom k st a) b := by
  simp [runFrom, List.foldl_append]

theorem run_append (k : Kind) (a b : List Call) : run k (a ++ b) = runFrom k (run k a) b :=
  runFrom_append k _ a b

theorem run_snoc (k : Kind) (a : List Call) (c : Call) : run k (a ++ [c]) = step k (run k a) c := by
  simp [run_append, runFrom]


/-! ## `AsyncSubject.ended`: set exactly by the first terminal, and then the map is empty for good -/

/-- for the other kinds the field is never written -/
def EndedOk (k : Kind) (st : State) : Prop :=
  if k.isAsync then (st.ended.isSome = true → st.observers = []) else st.ended = none

theorem endedOk_init (k : Kind) : EndedOk k (init k) := by cases k <;> simp [EndedOk, init, Kind.isAsync]

theorem emit_ended (k : Kind) (st : State) (ev : Ev) : (emit k st ev).ended = st.ended := rfl

theorem subscribeA_ended (k : Kind) (st : State) (o : Nat) : (subscribeA k st o).1.ended = st.ended := by
  unfold subscribeA
  split
  · rfl
  · cases k with
    | plain => rfl
    | behavior v =>
      dsimp only
      split
      · rfl
      · split <;> rfl
    | replay => rfl
    | async => dsimp only; split <;> rfl

theorem subscribeB_ended (k : Kind) (st : State) (o : Nat) (p : Pending) : (subscribeB k st o p).1.ended = st.ended := by
  unfold subscribeB subscribeH reap
  cases k <;> simp [Kind.isReplay] <;> split <;> rfl

theorem step_subscribe_ended (k : Kind) (st : State) (o : Nat) : (step k st (.subscribe o)).ended = st.ended := by
  show (subscribeB k _ o _).1.ended = _
  rw [subscribeB_ended, subscribeA_ended]

theorem unsub_ended (k : Kind) (st : State) (o : Nat) : (unsubscribeN k st o).1.ended = st.ended := by
  unfold unsubscribeN; split <;> rfl

/-- a subscriber arriving at an ended AsyncSubject is handed the result and not registered -/
theorem async_subscribe_ended_observers (st : State) (o : Nat) (he : st.ended.isSome = true) :
    (step .async st (.subscribe o)).observers = st.observers := by
  simp only [step, subscribeB, Kind.isReplay, Bool.false_and, Bool.false_eq_true, ↓reduceIte, subscribeH,
    subscribeA]
  split
  · rfl
  · cases hen : st.ended with
    | none => rw [hen] at he; cases he
    | some en => cases en <;> rfl

theorem EndedOk.step {k st} (h : EndedOk k st) (c : Call) : EndedOk k (step k st c) := by
  cases hk : k.isAsync with
  | false =>
    simp only [EndedOk, hk, Bool.false_eq_true, ↓reduceIte] at h ⊢
    cases c with
    | subscribe o => rw [step_subscribe_ended]; exact h
    | unsubscribe o => rw [show SubjM.step k st (.unsubscribe o) = (unsubscribeN k st o).1 from rfl, unsub_ended]; exact h
    | next v => rw [show SubjM.step k st (.next v) = emitK k st (.next v) from rfl, emitK_of_not_async k hk]; exact h
    | error e => rw [show SubjM.step k st (.error e) = emitK k st (.error e) from rfl, emitK_of_not_async k hk]; exact h
    | complete => rw [show SubjM.step k st .complete = emitK k st .complete from rfl, emitK_of_not_async k hk]; exact h
  | true =>
    have hk' : k = .async := by cases k <;> simp_all [Kind.isAsync]
    subst hk'
    simp only [EndedOk, Kind.isAsync, ↓reduceIte] at h ⊢
    cases c with
    | subscribe o =>
      rw [step_subscribe_ended]
      intro he; rw [async_subscribe_ended_observers st o he]; exact h he
    | unsubscribe o =>
      rw [show SubjM.step .async st (.unsubscribe o) = (unsubscribeN .async st o).1 from rfl, unsub_ended]
      intro he
      rw [unsub_observers, h he]
      cases (st.obs o).inHook <;> simp
    | next v =>
      show (emitK .async st (.next v)).ended.isSome = true → (emitK .async st (.next v)).observers = []
      unfold emitK; dsimp only
      split
      · exact h
      · rename_i hn; intro he; exact absurd he hn
    | error e =>
      show (emitK .async st (.error e)).ended.isSome = true → (emitK .async st (.error e)).observers = []
      unfold emitK; dsimp only
      split
      · exact h
      · intro _; simp [Ev.isTerminal]
    | complete =>
      show (emitK .async st .complete).ended.isSome = true → (emitK .async st .complete).observers = []
      unfold emitK; dsimp only
      split
      · exact h
      · intro _; simp [Ev.isTerminal]

theorem endedOk_runFrom {k st} (h : EndedOk k st) (cs : List Call) : EndedOk k (runFrom k st cs) := by
  induction cs generalizing st with
  | nil => exact h
  | cons c cs ih => exact ih (h.step c)

theorem endedOk_run (k : Kind) (cs : List Call) : EndedOk k (run k cs) := endedOk_runFrom (endedOk_init k) cs

theorem emitK_registered_terminal {k st} (h : EndedOk k st) (ev : Ev) (ht : ev.isTerminal = true) :
    registered (emitK k st ev) = [] := by
  cases hk : k.isAsync with
  | false => rw [emitK_of_not_async k hk, emit_registered]; simp [ht]
  | true =>
    have hk' : k = .async := by cases k <;> simp_all [Kind.isAsync]
    subst hk'
    simp only [EndedOk, Kind.isAsync, ↓reduceIte] at h
    unfold emitK; dsimp only
    split
    · rename_i he; simp [registered, h he]
    · cases ev with
      | next v => cases ht
      | error e => simp [registered, Ev.isTerminal]
      | complete => simp [registered, Ev.isTerminal]

/-! ## the Observable contract on every subscriber's log -/

/-- `next*` then at most one terminal: nothing but the last event may be a terminal -/
def contract (l : List Ev) : Bool := l.dropLast.all fun e => !e.isTerminal

def nonTerminal (l : List Ev) : Bool := l.all fun e => !e.isTerminal

/-- the log obeys the contract, and a subscriber that is still subscribed has seen no terminal -/
def LogOk (r : ObsSt) : Prop := contract r.log = true ∧ (r.alive = true → nonTerminal r.log = true)

theorem contract_of_nonTerminal (l : List Ev) (h : nonTerminal l = true) : contract l = true := by
  simp only [contract, nonTerminal, List.all_eq_true] at *
  intro e he; exact h e (List.dropLast_subset l he)

theorem contract_snoc (l : List Ev) (e : Ev) (h : nonTerminal l = true) : contract (l ++ [e]) = true := by
  simpa [contract, nonTerminal] using h

theorem nonTerminal_append (a b : List Ev) : nonTerminal (a ++ b) = (nonTerminal a && nonTerminal b) := by
  simp [nonTerminal]

theorem nonTerminal_map_next (l : List Data) : nonTerminal (l.map .next) = true := by
  simp [nonTerminal, Ev.isTerminal]

theorem LogOk.recv {r : ObsSt} (h : LogOk r) (ev : Ev) : LogOk (r.recv ev) := by
  obtain ⟨h1, h2⟩ := h
  unfold ObsSt.recv LogOk
  cases ha : r.alive with
  | false => simpa using h1
  | true =>
    have := h2 ha
    refine ⟨by simpa using contract_snoc _ ev this, ?_⟩
    simp only [Bool.true_and, Bool.not_eq_eq_eq_not, Bool.not_true, ↓reduceIte]
    intro hev
    rw [nonTerminal_append, this]
    simp [nonTerminal, hev]

theorem LogOk.recvK {r : ObsSt} (h : LogOk r) (k : Kind) (ev : Ev) : LogOk (recvK k ev r) := by
  cases k with
  | plain => exact h.recv ev
  | behavior v =>
    have := h.recv ev
    unfold ObsSt.recv at this
    unfold SubjM.recvK LogOk at *
    cases hi : r.inAlive <;> simp_all
  | replay =>
    have := h.recv ev
    unfold ObsSt.recv at this
    unfold SubjM.recvK LogOk at *
    cases hi : r.inAlive <;> simp_all
  | async => exact h.recv ev

theorem logOk_default : LogOk {} := by simp [LogOk, contract, nonTerminal]

theorem LogOk.emit {k st} (h : ∀ o, LogOk (st.obs o)) (ev : Ev) (o : Nat) : LogOk ((emit k st ev).obs o) :=
  deliver_pres k ev LogOk (fun _ hr => hr.recvK k ev) st.observers st.obs h o

theorem LogOk.subscribeA {k st} (h : ∀ o, LogOk (st.obs o)) (o o' : Nat) : LogOk ((subscribeA k st o).1.obs o') := by
  by_cases hne : o' = o
  · subst hne
    unfold SubjM.subscribeA
    split
    · exact h o'
    · cases k with
      | behavior v =>
        dsimp only
        split
        · simp [LogOk, contract, nonTerminal]
        · split
          · simp [LogOk, contract, nonTerminal]
          · simp [register_obs, LogOk, contract, nonTerminal, Ev.isTerminal]
      | async =>
        dsimp only
        split
        · simp [LogOk, contract, nonTerminal]
        · cases st.lastItem <;> simp [asyncHandover, LogOk, contract, nonTerminal, Ev.isTerminal]
        · simp [register_obs, LogOk, contract, nonTerminal]
      | _ => simp [register_obs, LogOk, contract, nonTerminal]
  · rw [subscribeA_obs_other _ _ _ _ hne]; exact h o'

theorem LogOk.foldRecv (hist : List Data) {r : ObsSt} (h : LogOk r) :
    LogOk (hist.foldl (fun r x => r.recv (.next x)) r) := by
  induction hist generalizing r with
  | nil => exact h
  | cons x xs ih => exact ih (h.recv _)

theorem LogOk.handOver {r : ObsSt} (h : LogOk r) (hist : List Data) (we : Option Nat) (wc : Bool) :
    LogOk (handOver r hist we wc) := by
  have := LogOk.foldRecv hist h
  unfold SubjM.handOver
  cases we with
  | some e => exact this.recv _
  | none =>
    cases wc with
    | false => exact this
    | true => exact this.recv _

theorem LogOk.subscribeH {k st} (h : ∀ o, LogOk (st.obs o)) (o : Nat) (p : Pending) (o' : Nat) :
    LogOk ((subscribeH k st o p).obs o') := by
  by_cases hne : o' = o
  · subst hne
    unfold SubjM.subscribeH
    cases k with
    | replay =>
      dsimp only
      split
      · have := (h o').handOver p.history st.wasError st.wasCompleted
        simpa [LogOk] using this
      · exact h o'
    | _ => exact h o'
  · rw [subscribeH_obs_other _ _ _ _ _ hne]; exact h o'

theorem LogOk.reap {st} (h : ∀ o, LogOk (st.obs o)) (o o' : Nat) : LogOk ((reap st o).1.obs o') := by
  rw [reap_obs]; split
  · subst_vars; exact h o'
  · exact h o'

theorem LogOk.subscribeB {k st} (h : ∀ o, LogOk (st.obs o)) (o : Nat) (p : Pending) (o' : Nat) :
    LogOk ((subscribeB k st o p).1.obs o') := by
  rw [subscribeB_fst]; split
  · exact LogOk.reap (fun o' => LogOk.subscribeH h o p o') o o'
  · exact LogOk.subscribeH h o p o'

theorem LogOk.unsubscribeN {k st} (h : ∀ o, LogOk (st.obs o)) (o o' : Nat) :
    LogOk ((unsubscribeN k st o).1.obs o') := by
  rw [unsub_obs]
  split
  · rename_i hh; obtain ⟨rfl, _⟩ := hh
    exact ⟨(h o').1, by simp⟩
  · exact h o'

theorem LogOk.emitK {k st} (h : ∀ o, LogOk (st.obs o)) (ev : Ev) (o : Nat) : LogOk ((emitK k st ev).obs o) :=
  emitK_pres (k := k) (fun st => ∀ o, LogOk (st.obs o)) (fun _ ev h o => LogOk.emit h ev o)
    (fun _ _ _ h => h) st ev h o

theorem LogOk.step {k st} (h : ∀ o, LogOk (st.obs o)) (c : Call) : ∀ o, LogOk ((step k st c).obs o) := by
  intro o
  cases c with
  | subscribe o' => exact LogOk.subscribeB (fun o => LogOk.subscribeA h o' o) o' _ o
  | unsubscribe o' => exact LogOk.unsubscribeN h o' o
  | next v => exact LogOk.emitK h (.next v) o
  | error e => exact LogOk.emitK h (.error e) o
  | complete => exact LogOk.emitK h .complete o

theorem logOk_runFrom {k st} (h : ∀ o, LogOk (st.obs o)) (cs : List Call) :
    ∀ o, LogOk ((runFrom k st cs).obs o) := by
  induction cs generalizing st with
  | nil => exact h
  | cons c cs ih => exact ih (LogOk.step h c)

theorem logOk_run (k : Kind) (cs : List Call) (o : Nat) : LogOk ((run k cs).obs o) :=
  logOk_runFrom (by intro o; cases k <;> exact logOk_default) cs o

/-- **C10, contract clause**: whatever the calls, every subscriber of every subject kind sees
    `next* (error | complete)?`. -/
theorem log_contract (k : Kind) (cs : List Call) (o : Nat) : contract (logOf (run k cs) o) = true :=
  (logOk_run k cs o).1

example : contract [.next (.int 1), .next (.int 2), .complete] = true := by decide
example : contract [.next (.int 1), .complete, .next (.int 2)] = false := by decide
example : contract [.complete, .error 1] = false := by decide


/-! ## C10, plain Subject clauses (stated for every kind that forwards: plain, behavior, replay) -/

theorem step_emitK (k : Kind) (st : State) (c : Call) (ev : Ev) (h : c.toEv? = some ev) :
    step k st c = emitK k st ev := by
  cases c <;> simp [Call.toEv?] at h <;> subst h <;> rfl

theorem step_emit (k : Kind) (hk : k.isAsync = false) (st : State) (c : Call) (ev : Ev) (h : c.toEv? = some ev) :
    step k st c = emit k st ev := by
  rw [step_emitK k st c ev h, emitK_of_not_async k hk]

theorem recvK_log (k : Kind) (hk : k.isAsync = false) (ev : Ev) (r : ObsSt) :
    (recvK k ev r).log = if (k.isPlain || r.inAlive) && r.alive then r.log ++ [ev] else r.log := by
  cases k <;> simp_all [recvK, ObsSt.recv, Kind.isAsync, Kind.isPlain]

theorem recvK_alive (k : Kind) (hk : k.isAsync = false) (ev : Ev) (r : ObsSt) :
    (recvK k ev r).alive = if k.isPlain || r.inAlive then r.alive && !ev.isTerminal else r.alive := by
  cases k <;> simp_all [recvK, ObsSt.recv, Kind.isAsync, Kind.isPlain]

/-- one `next` / `error` / `complete` call: exactly one event, the call's own, is appended to the log of each
    observer that is registered (and still subscribed) at that moment, and nothing to any other log -/
theorem emit_log {k st} (h : Inv k st) (hk : k.isAsync = false) (ev : Ev) (o : Nat) :
    logOf (emit k st ev) o =
      if o ∈ registered st ∧ aliveOf st o = true then logOf st o ++ [ev] else logOf st o := by
  unfold logOf aliveOf
  rw [emit_obs h]
  by_cases ho : o ∈ registered st
  · simp only [ho, ↓reduceIte, true_and, recvK_log k hk]
    have := h.regInAlive o ho
    cases hp : k.isPlain <;> simp_all
  · simp [ho]

/-- **C10 `delivers_to_current`** (all call sequences `cs`, all observers). -/
theorem delivers_to_current (k : Kind) (hk : k.isAsync = false) (cs : List Call) (c : Call) (ev : Ev)
    (hc : c.toEv? = some ev) (o : Nat) :
    logOf (step k (run k cs) c) o =
      if o ∈ registered (run k cs) ∧ aliveOf (run k cs) o = true then logOf (run k cs) o ++ [ev]
      else logOf (run k cs) o := by
  rw [step_emit k hk _ c ev hc]; exact emit_log (good_run k cs).inv hk ev o

/-- for every kind (ReplaySubject too: replay_subject.rs:95-99 takes the forwarder of a subscriber that was
    ended by the hand-over out again) the map never holds a subscriber that is no longer subscribed … -/
theorem registered_alive (k : Kind) (cs : List Call) (o : Nat)
    (ho : o ∈ registered (run k cs)) : aliveOf (run k cs) o = true :=
  (good_run k cs).alive o ho

/-- … so for a plain Subject "registered at that moment" alone decides who gets the event -/
theorem delivers_to_current_plain (cs : List Call) (c : Call) (ev : Ev) (hc : c.toEv? = some ev) (o : Nat) :
    logOf (step .plain (run .plain cs) c) o =
      if o ∈ registered (run .plain cs) then logOf (run .plain cs) o ++ [ev] else logOf (run .plain cs) o := by
  rw [delivers_to_current .plain rfl cs c ev hc o]
  by_cases ho : o ∈ registered (run .plain cs)
  · simp [ho, registered_alive .plain cs o ho]
  · simp [ho]

/-- subscribe / unsubscribe calls never write into another subscriber's log -/
theorem unsubscribe_log (k : Kind) (st : State) (o' o : Nat) :
    logOf (step k st (.unsubscribe o')) o = logOf st o := by
  simp only [logOf, step, unsub_obs]; split
  · rename_i hh; rw [hh.1]
  · rfl

theorem subscribe_log_other (k : Kind) (st : State) (o' o : Nat) (hne : o ≠ o') :
    logOf (step k st (.subscribe o')) o = logOf st o := by
  simp only [logOf, step_subscribe_other k st o' o hne]

/-- **C10 `no_observer_after_terminal`**: right after `error` / `complete` the map is empty (every kind). -/
theorem no_observer_after_terminal (k : Kind) (cs : List Call) (c : Call) (ev : Ev) (hc : c.toEv? = some ev)
    (ht : ev.isTerminal = true) : registered (step k (run k cs) c) = [] := by
  rw [step_emitK k _ c ev hc]; exact emitK_registered_terminal (endedOk_run k cs) ev ht

/-- and — every kind, every call sequence — an observer whose log holds a terminal is in no reachable map -/
theorem terminated_not_registered (k : Kind) (cs : List Call) (o : Nat)
    (ht : nonTerminal (logOf (run k cs) o) = false) : o ∉ registered (run k cs) := by
  intro ho
  have := (logOk_run k cs o).2 (registered_alive k cs o ho)
  simp [logOf] at ht; simp [ht] at this

/-- ReplaySubject, late subscriber (the case that used to leave the forwarder behind): it gets the history and
    the terminal, and the map does not hold it -/
theorem replay_late_subscriber_not_held :
    let st := run .replay [.next (.int 1), .complete, .subscribe 0]
    logOf st 0 = [.next (.int 1), .complete] ∧ aliveOf st 0 = false ∧ registered st = [] := by decide

/-! ### unsubscribe -/

theorem gone_emitK {k st} (h : Inv k st) (o : Nat) (hs : (st.obs o).seen = true) (hn : o ∉ registered st) (ev : Ev) :
    Inv k (emitK k st ev) ∧ ((emitK k st ev).obs o).seen = true ∧ o ∉ registered (emitK k st ev) :=
  emitK_pres (k := k) (fun st => Inv k st ∧ (st.obs o).seen = true ∧ o ∉ registered st)
    (fun st ev ⟨hi, hs, hn⟩ => ⟨hi.emit ev, by simp [emit_obs hi, hn, hs], by
      rw [emit_registered]; split
      · simp
      · exact hn⟩)
    (fun _ li en ⟨hi, hs, hn⟩ => ⟨hi.setMem li en, hs, hn⟩) st ev ⟨h, hs, hn⟩

theorem emitK_seen {k st} (h : Inv k st) (ev : Ev) (o : Nat) :
    ((emitK k st ev).obs o).seen = (st.obs o).seen :=
  (emitK_pres (k := k) (fun st' => Inv k st' ∧ (st'.obs o).seen = (st.obs o).seen)
    (fun st' ev ⟨hi, hs⟩ => ⟨hi.emit ev, by rw [emit_obs hi]; split <;> simp [recvK_seen, hs]⟩)
    (fun _ li en ⟨hi, hs⟩ => ⟨hi.setMem li en, hs⟩) st ev ⟨h, rfl⟩).2

/-- a used id that is not in the map never comes back -/
theorem gone_step {k st} (h : Good k st) (o : Nat) (hs : (st.obs o).seen = true) (hn : o ∉ registered st)
    (c : Call) : ((step k st c).obs o).seen = true ∧ o ∉ registered (step k st c) := by
  cases c with
  | subscribe o' =>
    by_cases hne : o = o'
    · subst hne; rw [step_subscribe_seen k st o hs]; exact ⟨hs, hn⟩
    · rw [step_subscribe_other k st o' o hne]
      refine ⟨hs, fun hm => ?_⟩
      rcases step_subscribe_sub k st o' o hm with h1 | h1
      · exact hn h1
      · exact hne h1
  | unsubscribe o' =>
    refine ⟨?_, fun hm => hn ((unsub_mem h.inv o' o).1 hm).1⟩
    simp only [step, unsub_obs]; split
    · rename_i hh; exact hh.2
    · exact hs
  | next v => exact (gone_emitK h.inv o hs hn (.next v)).2
  | error e => exact (gone_emitK h.inv o hs hn (.error e)).2
  | complete => exact (gone_emitK h.inv o hs hn .complete).2

theorem gone_runFrom {k st} (h : Good k st) (o : Nat) (hs : (st.obs o).seen = true) (hn : o ∉ registered st)
    (cs : List Call) : o ∉ registered (runFrom k st cs) := by
  induction cs generalizing st with
  | nil => exact hn
  | cons c cs ih => have := gone_step h o hs hn c; exact ih (h.step c) this.1 this.2

theorem unsubscribe_removes {k st} (h : Good k st) (o : Nat) : o ∉ registered (step k st (.unsubscribe o)) := by
  intro hm
  have := (unsub_mem h.inv o o).1 hm
  have ha := h.armed o this.1
  have hs := h.inv.regSeen o this.1
  apply this.2
  refine ⟨rfl, ?_⟩
  unfold reaches; simp only [hs, ha.1, Bool.true_and, Bool.or_eq_true]; exact ha.2

theorem step_seen_mono (k : Kind) (st : State) (c : Call) (o : Nat) (hs : (st.obs o).seen = true)
    (h : Inv k st) : ((step k st c).obs o).seen = true := by
  cases c with
  | subscribe o' =>
    by_cases hne : o = o'
    · subst hne; rw [step_subscribe_seen k st o hs]; exact hs
    · rw [step_subscribe_other k st o' o hne]; exact hs
  | unsubscribe o' =>
    simp only [step, unsub_obs]; split
    · rename_i hh; exact hh.2
    · exact hs
  | next v => show ((emitK k st (.next v)).obs o).seen = true; rw [emitK_seen h]; exact hs
  | error e => show ((emitK k st (.error e)).obs o).seen = true; rw [emitK_seen h]; exact hs
  | complete => show ((emitK k st .complete).obs o).seen = true; rw [emitK_seen h]; exact hs

theorem subscribeH_seen (k : Kind) (st : State) (o : Nat) (p : Pending) :
    ((subscribeH k st o p).obs o).seen = (st.obs o).seen := by
  unfold subscribeH
  cases k with
  | replay => dsimp only; split <;> simp [(handOver_fields _ _ _ _).1]
  | _ => rfl

/-- `subscribe o` always leaves `o` marked as used -/
theorem step_subscribe_marks (k : Kind) (st : State) (o : Nat) : ((step k st (.subscribe o)).obs o).seen = true := by
  simp only [step]
  rw [(subscribeB_obs_self _ _ _ _).1, subscribeH_seen]; exact subscribeA_marks _ _ _

theorem step_seen_iff {k st} (h : Good k st) (c : Call) (o : Nat) :
    ((step k st c).obs o).seen = true ↔ (st.obs o).seen = true ∨ c = .subscribe o := by
  constructor
  · intro hs
    by_cases hc : c = Call.subscribe o
    · exact Or.inr hc
    · left
      cases c with
      | subscribe o' =>
        have hne : o ≠ o' := fun e => hc (by rw [e])
        rwa [step_subscribe_other k _ o' o hne] at hs
      | unsubscribe o' =>
        simp only [step, unsub_obs] at hs; split at hs
        · rename_i hh; rw [hh.1]; exact hh.2
        · exact hs
      | next v => rwa [show step k st (.next v) = emitK k st (.next v) from rfl, emitK_seen h.inv] at hs
      | error e => rwa [show step k st (.error e) = emitK k st (.error e) from rfl, emitK_seen h.inv] at hs
      | complete => rwa [show step k st .complete = emitK k st .complete from rfl, emitK_seen h.inv] at hs
  · rintro (hm | rfl)
    · exact step_seen_mono k _ c o hm h.inv
    · exact step_subscribe_marks k st o

theorem seen_runFrom {k st} (h : Good k st) (cs : List Call) (o : Nat) :
    ((runFrom k st cs).obs o).seen = true ↔ (st.obs o).seen = true ∨ Call.subscribe o ∈ cs := by
  induction cs generalizing st with
  | nil => simp [runFrom]
  | cons c cs ih =>
    show ((runFrom k (step k st c) cs).obs o).seen = true ↔ _
    rw [ih (h.step c), step_seen_iff h]
    simp only [List.mem_cons]
    constructor
    · rintro ((h1 | h2) | h3)
      · exact Or.inl h1
      · exact Or.inr (Or.inl h2.symm)
      · exact Or.inr (Or.inr h3)
    · rintro (h1 | h2 | h3)
      · exact Or.inl (Or.inl h1)
      · exact Or.inl (Or.inr h2.symm)
      · exact Or.inr h3

/-- an id has been used iff a `subscribe` call named it -/
theorem seen_run (k : Kind) (cs : List Call) (o : Nat) :
    ((run k cs).obs o).seen = true ↔ Call.subscribe o ∈ cs := by
  unfold run; rw [seen_runFrom (good_init k)]
  have : ((init k).obs o).seen = false := by cases k <;> rfl
  simp [this]

/-- **C10 `no_observer_after_unsubscribe`** (every kind): once its subscription has been unsubscribed, an
    observer is never in the map again, whatever is called afterwards. -/
theorem no_observer_after_unsubscribe (k : Kind) (pre post : List Call) (o : Nat)
    (hsub : Call.subscribe o ∈ pre) :
    o ∉ registered (run k (pre ++ .unsubscribe o :: post)) := by
  rw [run_append]
  have hg := good_run k pre
  have hs := (seen_run k pre o).2 hsub
  show o ∉ registered (runFrom k (step k (run k pre) (.unsubscribe o)) post)
  exact gone_runFrom (hg.step _) o (step_seen_mono k _ _ o hs hg.inv) (unsubscribe_removes hg o) post

example : registered (run .plain [.subscribe 0, .subscribe 1, .next (.int 7), .unsubscribe 0, .subscribe 0]) = [1] := by
  decide
example :
    logOf (step .plain (run .plain [.subscribe 0, .subscribe 1, .unsubscribe 0]) (.next (.int 7))) 1 = [.next (.int 7)] ∧
    logOf (step .plain (run .plain [.subscribe 0, .subscribe 1, .unsubscribe 0]) (.next (.int 7))) 0 = [] := by decide


/-! ## what one subscriber sees, as a function of the calls made after its `subscribe` -/

/-- the events a Subject owes an observer that is subscribed when `cs` starts: every `next` in call order,
    up to and including the first terminal, or up to its own `unsubscribe` -/
def plainExpect (o : Nat) : List Call → List Ev
  | [] => []
  | .next v :: cs => .next v :: plainExpect o cs
  | .error e :: _ => [.error e]
  | .complete :: _ => [.complete]
  | .unsubscribe o' :: cs => if o' = o then [] else plainExpect o cs
  | .subscribe _ :: cs => plainExpect o cs

theorem frozen_emitK {k st} (h : Inv k st) (o : Nat) (hs : (st.obs o).seen = true)
    (hd : (st.obs o).alive = false) (ev : Ev) :
    ((emitK k st ev).obs o).seen = true ∧ ((emitK k st ev).obs o).alive = false ∧
    ((emitK k st ev).obs o).log = (st.obs o).log :=
  (emitK_pres (k := k) (fun st' => Inv k st' ∧ (st'.obs o).seen = true ∧ (st'.obs o).alive = false ∧
      (st'.obs o).log = (st.obs o).log)
    (fun st' ev ⟨hi, hs', hd', hl'⟩ => ⟨hi.emit ev, by
      rw [emit_obs hi]; split
      · exact ⟨by rw [recvK_seen]; exact hs', (recvK_dead _ _ _ hd').1, by rw [(recvK_dead _ _ _ hd').2]; exact hl'⟩
      · exact ⟨hs', hd', hl'⟩⟩)
    (fun _ li en ⟨hi, x⟩ => ⟨hi.setMem li en, x⟩) st ev ⟨h, hs, hd, rfl⟩).2

/-- a subscriber that is no longer subscribed records nothing more, whatever is called -/
theorem frozen_step {k st} (h : Good k st) (o : Nat) (hs : (st.obs o).seen = true)
    (hd : (st.obs o).alive = false) (c : Call) :
    ((step k st c).obs o).seen = true ∧ ((step k st c).obs o).alive = false ∧
    ((step k st c).obs o).log = (st.obs o).log := by
  cases c with
  | subscribe o' =>
    by_cases hne : o = o'
    · subst hne; rw [step_subscribe_seen k st o hs]; exact ⟨hs, hd, rfl⟩
    · rw [step_subscribe_other k st o' o hne]; exact ⟨hs, hd, rfl⟩
  | unsubscribe o' =>
    simp only [step, unsub_obs]; split
    · rename_i hh; rw [hh.1]; simp [hh.2]
    · exact ⟨hs, hd, rfl⟩
  | next v => exact frozen_emitK h.inv o hs hd (.next v)
  | error e => exact frozen_emitK h.inv o hs hd (.error e)
  | complete => exact frozen_emitK h.inv o hs hd .complete

theorem frozen_runFrom {k st} (h : Good k st) (o : Nat) (hs : (st.obs o).seen = true)
    (hd : (st.obs o).alive = false) (cs : List Call) :
    logOf (runFrom k st cs) o = logOf st o ∧ aliveOf (runFrom k st cs) o = false := by
  induction cs generalizing st with
  | nil => exact ⟨rfl, hd⟩
  | cons c cs ih =>
    have := frozen_step h o hs hd c
    have ih' := ih (h.step c) this.1 this.2.1
    exact ⟨by rw [show runFrom k st (c :: cs) = runFrom k (step k st c) cs from rfl, ih'.1]; exact this.2.2, ih'.2⟩

/-- registered and still subscribed: from here on the subscriber gets exactly `plainExpect` -/
theorem live_runFrom {k st} (hk : k.isAsync = false) (h : Good k st) (o : Nat) (hr : o ∈ registered st)
    (ha : (st.obs o).alive = true) (cs : List Call) :
    logOf (runFrom k st cs) o = logOf st o ++ plainExpect o cs := by
  induction cs generalizing st with
  | nil => simp [runFrom, plainExpect]
  | cons c cs ih =>
    have hseen := h.inv.regSeen o hr
    show logOf (runFrom k (step k st c) cs) o = _
    cases c with
    | subscribe o' =>
      have hobs : (step k st (.subscribe o')).obs o = st.obs o := by
        by_cases hne : o = o'
        · subst hne; rw [step_subscribe_seen k st o hseen]
        · exact step_subscribe_other k st o' o hne
      have hreg : o ∈ registered (step k st (.subscribe o')) := by
        by_cases hne : o = o'
        · subst hne; rw [step_subscribe_seen k st o hseen]; exact hr
        · exact step_subscribe_mono h.inv o' o hne hr
      rw [ih (h.step _) hreg (by rw [hobs]; exact ha)]
      simp [logOf, hobs, plainExpect]
    | unsubscribe o' =>
      by_cases hne : o' = o
      · subst hne
        have hfz := frozen_runFrom (h.step (.unsubscribe o')) o' (by simp [step, unsub_obs, hseen])
          (by simp [step, unsub_obs, hseen]) cs
        rw [hfz.1, unsubscribe_log]; simp [plainExpect]
      · have hobs : (step k st (.unsubscribe o')).obs o = st.obs o := by
          simp only [step, unsub_obs]; rw [if_neg]; intro hh; exact hne hh.1.symm
        have hreg : o ∈ registered (step k st (.unsubscribe o')) :=
          (unsub_mem h.inv o' o).2 ⟨hr, fun hh => hne hh.1.symm⟩
        rw [ih (h.step _) hreg (by rw [hobs]; exact ha)]
        simp [logOf, hobs, plainExpect, hne]
    | next v =>
      have hlog := emit_log h.inv hk (.next v) o
      simp only [hr, aliveOf, ha, and_self, ↓reduceIte] at hlog
      have hreg : o ∈ registered (step k st (.next v)) := by
        simp [step, emitK_of_not_async k hk, emit_registered, Ev.isTerminal, hr]
      have hal : ((step k st (.next v)).obs o).alive = true := by
        simp only [step, emitK_of_not_async k hk, emit_obs h.inv, hr, ↓reduceIte, recvK_alive_next]; exact ha
      rw [ih (h.step _) hreg hal]
      show logOf (emitK k st (.next v)) o ++ _ = _
      rw [emitK_of_not_async k hk]
      rw [hlog]; simp [plainExpect]
    | error e =>
      have hlog := emit_log h.inv hk (.error e) o
      simp only [hr, aliveOf, ha, and_self, ↓reduceIte] at hlog
      have hd : ((step k st (.error e)).obs o).alive = false := by
        simp only [step, emitK_of_not_async k hk, emit_obs h.inv, hr, ↓reduceIte, recvK_alive k hk]
        have := h.inv.regInAlive o hr
        cases hp : k.isPlain <;> simp_all [Ev.isTerminal]
      have hfz := frozen_runFrom (h.step (.error e)) o (step_seen_mono k st _ o hseen h.inv) hd cs
      rw [hfz.1]
      show logOf (emitK k st (.error e)) o = _
      rw [emitK_of_not_async k hk]
      rw [hlog]; simp [plainExpect]
    | complete =>
      have hlog := emit_log h.inv hk .complete o
      simp only [hr, aliveOf, ha, and_self, ↓reduceIte] at hlog
      have hd : ((step k st .complete).obs o).alive = false := by
        simp only [step, emitK_of_not_async k hk, emit_obs h.inv, hr, ↓reduceIte, recvK_alive k hk]
        have := h.inv.regInAlive o hr
        cases hp : k.isPlain <;> simp_all [Ev.isTerminal]
      have hfz := frozen_runFrom (h.step .complete) o (step_seen_mono k st _ o hseen h.inv) hd cs
      rw [hfz.1]
      show logOf (emitK k st .complete) o = _
      rw [emitK_of_not_async k hk]
      rw [hlog]; simp [plainExpect]

theorem unseen_of_not_subscribed (k : Kind) (pre : List Call) (o : Nat) (h : Call.subscribe o ∉ pre) :
    ((run k pre).obs o).seen = false := by
  cases hs : ((run k pre).obs o).seen with
  | false => rfl
  | true => exact absurd ((seen_run k pre o).1 hs) h

/-- **C10 plain Subject, whole-run form**: an observer's log is exactly the `next`s made while it was
    subscribed, each once, in call order, closed by the first terminal (unless it unsubscribed first). -/
theorem plain_log_spec (pre post : List Call) (o : Nat) (hfresh : Call.subscribe o ∉ pre) :
    logOf (run .plain (pre ++ .subscribe o :: post)) o = plainExpect o post := by
  rw [run_append]
  have hu := unseen_of_not_subscribed .plain pre o hfresh
  have hg := good_run .plain pre
  show logOf (runFrom .plain (step .plain (run .plain pre) (.subscribe o)) post) o = _
  have hst : (step .plain (run .plain pre) (.subscribe o)) =
      register (run .plain pre) o { seen := true, alive := true, hook := true } := by
    simp [step, subscribeA, subscribeB, subscribeH, Kind.isReplay, hu]
  rw [live_runFrom rfl (hg.step _) o (by rw [hst, register_registered]; simp) (by rw [hst, register_obs]; simp)]
  simp [logOf, hst, register_obs]


/-! ## the stored state as a function of the calls -/

/-- BehaviorSubject.last_item after the calls: `next v` stores `v`, `complete` empties it -/
def latestValue (cur : Option Data) : List Call → Option Data
  | [] => cur
  | .next v :: cs => latestValue (some v) cs
  | .complete :: cs => latestValue none cs
  | .error _ :: cs => latestValue cur cs
  | .subscribe _ :: cs => latestValue cur cs
  | .unsubscribe _ :: cs => latestValue cur cs

/-- last_error / was_error: the most recent `error` call -/
def storedError (cur : Option Nat) : List Call → Option Nat
  | [] => cur
  | .error e :: cs => storedError (some e) cs
  | .next _ :: cs => storedError cur cs
  | .complete :: cs => storedError cur cs
  | .subscribe _ :: cs => storedError cur cs
  | .unsubscribe _ :: cs => storedError cur cs

/-- ReplaySubject.items: every `next` so far, in call order -/
def pastItems : List Call → List Data
  | [] => []
  | .next v :: cs => v :: pastItems cs
  | .error _ :: cs => pastItems cs
  | .complete :: cs => pastItems cs
  | .subscribe _ :: cs => pastItems cs
  | .unsubscribe _ :: cs => pastItems cs

/-- was_completed: some `complete` call was made -/
def completedIn : List Call → Bool
  | [] => false
  | .complete :: _ => true
  | .next _ :: cs => completedIn cs
  | .error _ :: cs => completedIn cs
  | .subscribe _ :: cs => completedIn cs
  | .unsubscribe _ :: cs => completedIn cs

/-- the stored fields -/
def mem (st : State) : Option Data × Option Nat × List Data × Option Nat × Bool :=
  (st.lastItem, st.lastError, st.items, st.wasError, st.wasCompleted)

theorem subscribeA_mem (k : Kind) (st : State) (o : Nat) : mem (subscribeA k st o).1 = mem st := by
  unfold subscribeA
  split
  · rfl
  · cases k with
    | behavior v =>
      dsimp only
      split
      · rfl
      · split <;> rfl
    | async => dsimp only; split <;> rfl
    | _ => rfl

theorem subscribeH_mem (k : Kind) (st : State) (o : Nat) (p : Pending) : mem (subscribeH k st o p) = mem st := by
  unfold subscribeH
  cases k with
  | replay => dsimp only; split <;> rfl
  | _ => rfl

theorem subscribeB_mem (k : Kind) (st : State) (o : Nat) (p : Pending) : mem (subscribeB k st o p).1 = mem st := by
  rw [subscribeB_fst]; split
  · exact (show mem (reap (subscribeH k st o p) o).1 = mem (subscribeH k st o p) from rfl).trans (subscribeH_mem k st o p)
  · exact subscribeH_mem k st o p

theorem unsubscribeN_mem (k : Kind) (st : State) (o : Nat) : mem (unsubscribeN k st o).1 = mem st := by
  unfold unsubscribeN; split <;> rfl

theorem step_mem_sub (k : Kind) (st : State) (o : Nat) : mem (step k st (.subscribe o)) = mem st := by
  simp only [step, subscribeB_mem, subscribeA_mem]

theorem step_mem_unsub (k : Kind) (st : State) (o : Nat) : mem (step k st (.unsubscribe o)) = mem st := by
  simp only [step, unsubscribeN_mem]

theorem behavior_mem (i : Data) (st : State) (cs : List Call) :
    (runFrom (.behavior i) st cs).lastItem = latestValue st.lastItem cs ∧
    (runFrom (.behavior i) st cs).lastError = storedError st.lastError cs := by
  induction cs generalizing st with
  | nil => exact ⟨rfl, rfl⟩
  | cons c cs ih =>
    have := ih (step (.behavior i) st c)
    show (runFrom _ (step _ st c) cs).lastItem = _ ∧ (runFrom _ (step _ st c) cs).lastError = _
    rw [this.1, this.2]
    cases c with
    | subscribe o => have := step_mem_sub (.behavior i) st o; simp only [mem, Prod.mk.injEq] at this; simp [latestValue, storedError, this]
    | unsubscribe o => have := step_mem_unsub (.behavior i) st o; simp only [mem, Prod.mk.injEq] at this; simp [latestValue, storedError, this]
    | next v => simp [latestValue, storedError, step, emitK, emit, newLastItem, newLastError]
    | error e => simp [latestValue, storedError, step, emitK, emit, newLastItem, newLastError]
    | complete => simp [latestValue, storedError, step, emitK, emit, newLastItem, newLastError]

theorem replay_mem (st : State) (cs : List Call) :
    (runFrom .replay st cs).items = st.items ++ pastItems cs ∧
    (runFrom .replay st cs).wasError = storedError st.wasError cs ∧
    (runFrom .replay st cs).wasCompleted = (st.wasCompleted || completedIn cs) := by
  induction cs generalizing st with
  | nil => simp [runFrom, pastItems, storedError, completedIn]
  | cons c cs ih =>
    have := ih (step .replay st c)
    show (runFrom _ (step _ st c) cs).items = _ ∧ (runFrom _ (step _ st c) cs).wasError = _ ∧
      (runFrom _ (step _ st c) cs).wasCompleted = _
    rw [this.1, this.2.1, this.2.2]
    cases c with
    | subscribe o => have := step_mem_sub .replay st o; simp only [mem, Prod.mk.injEq] at this; simp [pastItems, storedError, completedIn, this]
    | unsubscribe o => have := step_mem_unsub .replay st o; simp only [mem, Prod.mk.injEq] at this; simp [pastItems, storedError, completedIn, this]
    | next v => simp [pastItems, storedError, completedIn, step, emitK, emit, newItems, newWasError, newWasCompleted]
    | error e => simp [pastItems, storedError, completedIn, step, emitK, emit, newItems, newWasError, newWasCompleted]
    | complete => simp [pastItems, storedError, completedIn, step, emitK, emit, newItems, newWasError, newWasCompleted]

/-! ## C10 `behavior_handover` -/

/-- **C10 `behavior_handover`**: whatever was called before (`pre`) and after (`post`), a new subscriber of a
    BehaviorSubject first gets the stored error and nothing else, or — the last item having been emptied by
    `complete` — just `complete`, or else the latest value, followed by exactly what a plain Subject gives an
    observer subscribed at that moment. -/
theorem behavior_handover (i : Data) (pre post : List Call) (o : Nat) (hfresh : Call.subscribe o ∉ pre) :
    logOf (run (.behavior i) (pre ++ .subscribe o :: post)) o =
      match storedError none pre with
      | some e => [.error e]
      | none =>
        match latestValue (some i) pre with
        | none => [.complete]
        | some v => .next v :: logOf (run .plain (.subscribe o :: post)) o := by
  have hplain : logOf (run .plain (.subscribe o :: post)) o = plainExpect o post := by
    simpa using plain_log_spec [] post o (by simp)
  rw [hplain, run_append]
  have hu := unseen_of_not_subscribed (.behavior i) pre o hfresh
  have hg := good_run (.behavior i) pre
  have hm := behavior_mem i (init (.behavior i)) pre
  simp only [init] at hm
  show logOf (runFrom _ (step _ (run (.behavior i) pre) (.subscribe o)) post) o = _
  rw [← hm.1, ← hm.2]
  have hgs := hg.step (.subscribe o)
  generalize hst : run (.behavior i) pre = st at *
  have hm1 : (runFrom (.behavior i) { lastItem := some i } pre) = st := hst
  rw [hm1]
  cases he : st.lastError with
  | some e =>
    have hstep : step (.behavior i) st (.subscribe o) = { st with obs := upd st.obs o { seen := true, log := [.error e] } } := by
      simp [step, subscribeA, subscribeB, subscribeH, Kind.isReplay, hu, he]
    rw [hstep] at hgs ⊢
    have := frozen_runFrom hgs o (by simp) (by simp) post
    rw [this.1]; simp [logOf]
  | none =>
    cases hl : st.lastItem with
    | none =>
      have hstep : step (.behavior i) st (.subscribe o) = { st with obs := upd st.obs o { seen := true, log := [.complete] } } := by
        simp [step, subscribeA, subscribeB, subscribeH, Kind.isReplay, hu, he, hl]
      rw [hstep] at hgs ⊢
      have := frozen_runFrom hgs o (by simp) (by simp) post
      rw [this.1]; simp [logOf]
    | some v =>
      have hstep : step (.behavior i) st (.subscribe o) =
          register st o { seen := true, alive := true, log := [.next v], hook := true, inAlive := true, armed := true } := by
        simp [step, subscribeA, subscribeB, subscribeH, Kind.isReplay, hu, he, hl]
      rw [hstep] at hgs ⊢
      rw [live_runFrom rfl hgs o (by rw [register_registered]; simp) (by rw [register_obs]; simp)]
      simp [logOf, register_obs]

/-- the stored value is lost only through `complete` … -/
theorem latestValue_some (cur : Data) (cs : List Call) (h : Call.complete ∉ cs) :
    ∃ v, latestValue (some cur) cs = some v := by
  induction cs generalizing cur with
  | nil => exact ⟨cur, rfl⟩
  | cons c cs ih =>
    simp only [List.mem_cons, not_or] at h
    cases c with
    | complete => exact absurd rfl h.1
    | next v => exact ih v h.2
    | error e => exact ih cur h.2
    | subscribe o' => exact ih cur h.2
    | unsubscribe o' => exact ih cur h.2

/-- … and (as written, behavior_subject.rs:26-29) a `next` after `complete` brings it back: the subscriber
    below arrives after the subject completed, is handed `5` and goes live instead of getting `complete`. -/
theorem behavior_forgets_complete :
    logOf (run (.behavior (.int 0)) [.complete, .next (.int 5), .subscribe 0, .next (.int 6)]) 0
      = [.next (.int 5), .next (.int 6)] := by decide

example : logOf (run (.behavior (.int 0)) [.next (.int 1), .subscribe 0, .next (.int 2), .subscribe 1, .complete, .subscribe 2]) 1
    = [.next (.int 2), .complete] := by decide
example : logOf (run (.behavior (.int 0)) [.next (.int 1), .error 4, .subscribe 2]) 2 = [.error 4] := by decide


/-! ## C10 `replay_handover` -/

theorem foldRecv_alive (hist : List Data) (r : ObsSt) (ha : r.alive = true) :
    (hist.foldl (fun r x => r.recv (.next x)) r).log = r.log ++ hist.map .next ∧
    (hist.foldl (fun r x => r.recv (.next x)) r).alive = true := by
  induction hist generalizing r with
  | nil => simp [ha]
  | cons x xs ih =>
    have := ih (r.recv (.next x)) (by simp [ObsSt.recv, ha, Ev.isTerminal])
    simp only [List.foldl_cons, this, List.map_cons]
    simp [ObsSt.recv, ha]

/-- the terminal a ReplaySubject has stored (error wins over complete, replay_subject.rs:77-83) -/
def storedTerminal (we : Option Nat) (wc : Bool) : List Ev :=
  match we with
  | some e => [.error e]
  | none => if wc then [.complete] else []

theorem handOver_alive (r : ObsSt) (hist : List Data) (we : Option Nat) (wc : Bool) (ha : r.alive = true) :
    (handOver r hist we wc).log = r.log ++ hist.map .next ++ storedTerminal we wc ∧
    (handOver r hist we wc).alive = (storedTerminal we wc).isEmpty := by
  have := foldRecv_alive hist r ha
  unfold handOver storedTerminal
  generalize hist.foldl (fun r x => r.recv (.next x)) r = r1 at this
  obtain ⟨t1, t2⟩ := this
  cases we with
  | some e => simp [ObsSt.recv, t1, t2, Ev.isTerminal]
  | none => cases wc <;> simp [ObsSt.recv, t1, t2, Ev.isTerminal]

/-- what `subscribe o` does for an unused id on a ReplaySubject: the subscriber gets the history and the stored
    terminal; it is in the map afterwards iff there was no stored terminal -/
theorem replay_subscribe_fresh {st : State} (hi : Inv .replay st) (o : Nat) (hu : (st.obs o).seen = false) :
    ((step .replay st (.subscribe o)).obs o).log = st.items.map .next ++ storedTerminal st.wasError st.wasCompleted ∧
    ((step .replay st (.subscribe o)).obs o).alive = (storedTerminal st.wasError st.wasCompleted).isEmpty ∧
    ((step .replay st (.subscribe o)).obs o).seen = true ∧
    (∀ o', o' ∈ registered (step .replay st (.subscribe o)) ↔
      (o' ∈ registered st ∨ (o' = o ∧ storedTerminal st.wasError st.wasCompleted = []))) := by
  have hA : subscribeA .replay st o =
      (register st o { seen := true, alive := true, hook := true, inAlive := true },
       { fresh := true, len := some (st.observers.length + 1), history := st.items }) := by
    simp [subscribeA, hu]
  have hiH := (hi.subscribeA o).subscribeH o (subscribeA .replay st o).2 (subscribeA_fresh_seen _ st o)
  have hnr := hi.unseen_not_reg o hu
  have hho := handOver_alive { seen := true, alive := true, hook := true, inAlive := true, inHook := some (st.serial + 1) }
    st.items st.wasError st.wasCompleted rfl
  have hfl := handOver_fields { seen := true, alive := true, hook := true, inAlive := true, inHook := some (st.serial + 1) }
    st.items st.wasError st.wasCompleted
  simp only [SubjM.step, subscribeB_fst, hA, Kind.isReplay, Bool.true_and, ↓reduceIte]
  rw [hA] at hiH
  simp only at hiH
  generalize hH : subscribeH .replay (register st o { seen := true, alive := true, hook := true, inAlive := true }) o
    { fresh := true, len := some (st.observers.length + 1), history := st.items } = H at hiH ⊢
  have hHo : H.obs o = { (handOver { seen := true, alive := true, hook := true, inAlive := true, inHook := some (st.serial + 1) }
      st.items st.wasError st.wasCompleted) with armed := true } := by
    rw [← hH]; simp [subscribeH, register]
  have hHr : registered H = registered st ++ [o] := by
    rw [← hH]; simp [registered, subscribeH_observers, register]
  have hs' := reap_obs_self H o
  refine ⟨by rw [hs'.2.2.1, hHo]; exact hho.1, by rw [hs'.2.1, hHo]; exact hho.2, by rw [hs'.1, hHo]; exact hfl.1, ?_⟩
  intro o'
  rw [reap_mem hiH o o', hHr]
  have hreaped : reaped (H.obs o) = !(storedTerminal st.wasError st.wasCompleted).isEmpty := by
    rw [hHo]; simp [reaped, hho.2]
  simp only [List.mem_append, List.mem_singleton, hreaped]
  constructor
  · rintro ⟨h1 | h1, h2⟩
    · exact Or.inl h1
    · right; refine ⟨h1, ?_⟩
      cases hst : storedTerminal st.wasError st.wasCompleted with
      | nil => rfl
      | cons t ts => exact absurd ⟨h1, by simp [hst]⟩ h2
  · rintro (h1 | ⟨h1, h2⟩)
    · refine ⟨Or.inl h1, ?_⟩
      rintro ⟨rfl, _⟩; exact hnr h1
    · exact ⟨Or.inr h1, by simp [h2]⟩

/-- **C10 `replay_handover`**: a new subscriber of a ReplaySubject first gets every past item, in call order,
    then the stored terminal if there is one (and nothing more), otherwise exactly what a plain Subject gives
    an observer subscribed at that moment. -/
theorem replay_handover (pre post : List Call) (o : Nat) (hfresh : Call.subscribe o ∉ pre) :
    logOf (run .replay (pre ++ .subscribe o :: post)) o =
      (pastItems pre).map .next ++
        match storedError none pre with
        | some e => [.error e]
        | none => if completedIn pre then [.complete] else logOf (run .plain (.subscribe o :: post)) o := by
  have hplain : logOf (run .plain (.subscribe o :: post)) o = plainExpect o post := by
    simpa using plain_log_spec [] post o (by simp)
  rw [hplain, run_append]
  have hu := unseen_of_not_subscribed .replay pre o hfresh
  have hg := good_run .replay pre
  have hm := replay_mem (init .replay) pre
  simp only [init, List.nil_append, Bool.false_or] at hm
  show logOf (runFrom _ (step _ (run .replay pre) (.subscribe o)) post) o = _
  rw [← hm.1, ← hm.2.1, ← hm.2.2]
  have hgs := hg.step (.subscribe o)
  have hm1 : (runFrom .replay {} pre) = run .replay pre := rfl
  rw [hm1]
  generalize run .replay pre = st at *
  have hf := replay_subscribe_fresh hg.inv o hu
  have hlog : logOf (step .replay st (.subscribe o)) o = st.items.map .next ++ storedTerminal st.wasError st.wasCompleted := hf.1
  have hal := hf.2.1
  have hseen := hf.2.2.1
  have hreg : storedTerminal st.wasError st.wasCompleted = [] → o ∈ registered (step .replay st (.subscribe o)) :=
    fun h0 => (hf.2.2.2 o).2 (Or.inr ⟨rfl, h0⟩)
  cases he : st.wasError with
  | some e =>
    simp only [he, storedTerminal] at hlog hal
    have := frozen_runFrom hgs o hseen (by simpa using hal) post
    rw [this.1, hlog]
  | none =>
    cases hc : st.wasCompleted with
    | true =>
      simp only [he, hc, storedTerminal] at hlog hal
      have := frozen_runFrom hgs o hseen (by simpa using hal) post
      rw [this.1, hlog]; simp
    | false =>
      simp only [he, hc, storedTerminal] at hlog hal hreg
      rw [live_runFrom rfl hgs o (hreg (by simp)) (by simpa using hal), hlog]; simp

/-- as written (replay_subject.rs:28-31) `next` after a terminal is still recorded, so "every past item"
    includes items pushed after the subject completed: the late subscriber 1 gets `7` before `complete`. -/
theorem replay_records_after_terminal :
    logOf (run .replay [.next (.int 1), .complete, .next (.int 7), .subscribe 1]) 1
      = [.next (.int 1), .next (.int 7), .complete] := by decide

example : logOf (run .replay [.next (.int 1), .subscribe 0, .next (.int 2), .subscribe 1, .next (.int 3), .complete, .subscribe 2]) 1
    = [.next (.int 1), .next (.int 2), .next (.int 3), .complete] := by decide
example : logOf (run .replay [.next (.int 1), .error 9, .subscribe 2, .next (.int 3)]) 2 = [.next (.int 1), .error 9] := by decide

/-! ## C10 `async_last_only` — the AsyncSubject owns the last item and the terminal (async_subject.rs) -/

/-- what an AsyncSubject owes an observer registered when `cs` starts (`last` = the item stored so far): nothing
    until the first terminal; on `complete` the last item (if any) and `complete`; on `error` the error -/
def asyncExpect (o : Nat) : Option Data → List Call → List Ev
  | _, [] => []
  | _, .next v :: cs => asyncExpect o (some v) cs
  | _, .error e :: _ => [.error e]
  | last, .complete :: _ => asyncHandover last
  | last, .unsubscribe o' :: cs => if o' = o then [] else asyncExpect o last cs
  | last, .subscribe _ :: cs => asyncExpect o last cs

/-- `(ended, last_item)` after one more call: `next` stores, the first terminal is recorded, nothing after it -/
def asyncMemStep (p : Option Ended × Option Data) (c : Call) : Option Ended × Option Data :=
  if p.1.isSome then p else
  match c with
  | .next v => (none, some v)
  | .error e => (some (.failed e), p.2)
  | .complete => (some .completed, p.2)
  | _ => p

def asyncMem (cs : List Call) : Option Ended × Option Data := cs.foldl asyncMemStep (none, none)

/-- what the subject hands to whoever subscribes from now on -/
def asyncResultOf (p : Option Ended × Option Data) : List Ev :=
  match p.1 with
  | some (.failed e) => [.error e]
  | some .completed => asyncHandover p.2
  | none => []

theorem emit_lastItem_async (st : State) (ev : Ev) : (emit .async st ev).lastItem = st.lastItem := by
  cases ev <;> rfl

theorem async_step_mem (st : State) (c : Call) :
    ((step .async st c).ended, (step .async st c).lastItem) = asyncMemStep (st.ended, st.lastItem) c := by
  cases c with
  | subscribe o =>
    have h1 := step_subscribe_ended .async st o
    have h2 := step_mem_sub .async st o
    simp only [mem, Prod.mk.injEq] at h2
    simp only [h1, h2.1, asyncMemStep]; split <;> rfl
  | unsubscribe o =>
    have h1 := unsub_ended .async st o
    have h2 := step_mem_unsub .async st o
    simp only [mem, Prod.mk.injEq] at h2
    show ((unsubscribeN .async st o).1.ended, (step .async st (.unsubscribe o)).lastItem) = _
    simp only [h1, h2.1, asyncMemStep]; split <;> rfl
  | next v =>
    show ((emitK .async st (.next v)).ended, (emitK .async st (.next v)).lastItem) = _
    unfold emitK asyncMemStep; dsimp only
    cases he : st.ended.isSome
    · have : st.ended = none := by cases h : st.ended <;> simp_all
      simp [this]
    · simp
  | error e =>
    show ((emitK .async st (.error e)).ended, (emitK .async st (.error e)).lastItem) = _
    unfold emitK asyncMemStep; dsimp only
    cases he : st.ended.isSome <;> simp [emit_ended, emit_lastItem_async]
  | complete =>
    show ((emitK .async st .complete).ended, (emitK .async st .complete).lastItem) = _
    unfold emitK asyncMemStep; dsimp only
    cases he : st.ended.isSome
    · cases hli : st.lastItem <;> simp [emit_ended, emit_lastItem_async]
    · simp

theorem async_runFrom_mem (cs : List Call) : ∀ st : State,
    ((runFrom .async st cs).ended, (runFrom .async st cs).lastItem) = cs.foldl asyncMemStep (st.ended, st.lastItem) := by
  induction cs with
  | nil => intro st; rfl
  | cons c cs ih =>
    intro st
    show ((runFrom .async (step .async st c) cs).ended, (runFrom .async (step .async st c) cs).lastItem) = _
    rw [ih, async_step_mem]; rfl

/-- the two fields of the subject as a function of the calls -/
theorem async_run_mem (cs : List Call) : ((run .async cs).ended, (run .async cs).lastItem) = asyncMem cs :=
  async_runFrom_mem cs (init .async)

theorem asyncMem_frozen (cs : List Call) (p : Option Ended × Option Data) (h : p.1.isSome = true) :
    cs.foldl asyncMemStep p = p := by
  induction cs with
  | nil => rfl
  | cons c cs ih => rw [List.foldl_cons, show asyncMemStep p c = p by simp [asyncMemStep, h]]; exact ih

/-- one broadcast of the inner Subject of an AsyncSubject: exactly the registered, still subscribed observers get it -/
theorem emit_log_async {st} (h : Inv .async st) (ev : Ev) (o : Nat) :
    logOf (emit .async st ev) o =
      if o ∈ registered st ∧ aliveOf st o = true then logOf st o ++ [ev] else logOf st o := by
  unfold logOf aliveOf
  rw [emit_obs h]
  by_cases ho : o ∈ registered st
  · simp only [ho, ↓reduceIte, true_and, recvK, ObsSt.recv]
  · simp [ho]

theorem emit_alive_async {st} (h : Inv .async st) (ev : Ev) (o : Nat) (ho : o ∈ registered st) :
    ((emit .async st ev).obs o).alive = ((st.obs o).alive && !ev.isTerminal) := by
  rw [emit_obs h, if_pos ho]; rfl

/-- a registered observer of a not yet ended AsyncSubject: from here on it gets exactly `asyncExpect` -/
theorem async_live_runFrom {st} (h : Good .async st) (he : EndedOk .async st) (o : Nat) (hr : o ∈ registered st)
    (hlog : (st.obs o).log = []) (cs : List Call) :
    logOf (runFrom .async st cs) o = asyncExpect o st.lastItem cs := by
  induction cs generalizing st with
  | nil => simp [runFrom, asyncExpect, logOf, hlog]
  | cons c cs ih =>
    have hseen := h.inv.regSeen o hr
    have ha := h.alive o hr
    have hen : st.ended = none := by
      simp only [EndedOk, Kind.isAsync, ↓reduceIte] at he
      cases hx : st.ended with
      | none => rfl
      | some x =>
        have := he (by simp [hx])
        simp [registered, this] at hr
    show logOf (runFrom .async (step .async st c) cs) o = _
    cases c with
    | subscribe o' =>
      have hobs : (step .async st (.subscribe o')).obs o = st.obs o := by
        by_cases hne : o = o'
        · subst hne; rw [step_subscribe_seen .async st o hseen]
        · exact step_subscribe_other .async st o' o hne
      have hreg : o ∈ registered (step .async st (.subscribe o')) := by
        by_cases hne : o = o'
        · subst hne; rw [step_subscribe_seen .async st o hseen]; exact hr
        · exact step_subscribe_mono h.inv o' o hne hr
      have hm := step_mem_sub .async st o'
      simp only [mem, Prod.mk.injEq] at hm
      rw [ih (h.step _) (he.step _) hreg (by rw [hobs]; exact hlog), hm.1]
      simp [asyncExpect]
    | unsubscribe o' =>
      by_cases hne : o' = o
      · subst hne
        have hfz := frozen_runFrom (h.step (.unsubscribe o')) o' (by simp [step, unsub_obs, hseen])
          (by simp [step, unsub_obs, hseen]) cs
        rw [hfz.1, unsubscribe_log]; simp [asyncExpect, logOf, hlog]
      · have hobs : (step .async st (.unsubscribe o')).obs o = st.obs o := by
          simp only [step, unsub_obs]; rw [if_neg]; intro hh; exact hne hh.1.symm
        have hreg : o ∈ registered (step .async st (.unsubscribe o')) :=
          (unsub_mem h.inv o' o).2 ⟨hr, fun hh => hne hh.1.symm⟩
        have hm := step_mem_unsub .async st o'
        simp only [mem, Prod.mk.injEq] at hm
        rw [ih (h.step _) (he.step _) hreg (by rw [hobs]; exact hlog), hm.1]
        simp [asyncExpect, hne]
    | next v =>
      have hst : step .async st (.next v) = { st with lastItem := some v } := by
        show emitK .async st (.next v) = _
        simp [emitK, hen]
      rw [ih (h.step _) (he.step _) (by rw [hst]; exact hr) (by rw [hst]; exact hlog), hst]
      simp [asyncExpect]
    | error e =>
      have hst : step .async st (.error e) = emit .async { st with ended := some (.failed e) } (.error e) := by
        show emitK .async st (.error e) = _
        simp [emitK, hen]
      have hi1 := h.inv.setMem st.lastItem (some (.failed e))
      have hr1 : o ∈ registered ({ st with ended := some (.failed e) } : State) := hr
      have ha1 : aliveOf ({ st with ended := some (.failed e) } : State) o = true := ha
      have hl := emit_log_async hi1 (.error e) o
      have hal := emit_alive_async hi1 (.error e) o hr
      have hfz := frozen_runFrom (h.step (.error e)) o (step_seen_mono .async st _ o hseen h.inv)
        (by rw [hst, hal]; simp [Ev.isTerminal]) cs
      rw [hfz.1, hst, hl, if_pos ⟨hr1, ha1⟩]
      simp [logOf, hlog, asyncExpect]
    | complete =>
      cases hli : st.lastItem with
      | none =>
        have hst : step .async st .complete = emit .async { st with ended := some .completed } .complete := by
          show emitK .async st .complete = _
          simp [emitK, hen, hli]
        have hi1 := h.inv.setMem st.lastItem (some .completed)
        have hr1 : o ∈ registered ({ st with ended := some .completed } : State) := hr
        have ha1 : aliveOf ({ st with ended := some .completed } : State) o = true := ha
        have hl := emit_log_async hi1 .complete o
        have hal := emit_alive_async hi1 .complete o hr
        have hfz := frozen_runFrom (h.step .complete) o (step_seen_mono .async st _ o hseen h.inv)
          (by rw [hst, hal]; simp [Ev.isTerminal]) cs
        rw [hfz.1, hst, hl, if_pos ⟨hr1, ha1⟩]
        simp [logOf, hlog, asyncExpect, asyncHandover]
      | some v =>
        have hst : step .async st .complete =
            emit .async (emit .async { st with ended := some .completed } (.next v)) .complete := by
          show emitK .async st .complete = _
          simp [emitK, hen, hli]
        have hi1 := h.inv.setMem st.lastItem (some .completed)
        have hi2 := hi1.emit (.next v)
        have hr1 : o ∈ registered ({ st with ended := some .completed } : State) := hr
        have ha1 : aliveOf ({ st with ended := some .completed } : State) o = true := ha
        have hr2 : o ∈ registered (emit .async { st with ended := some .completed } (.next v)) := by
          rw [emit_registered]; simp only [Ev.isTerminal, Bool.false_eq_true, ↓reduceIte]; exact hr
        have hl1 := emit_log_async hi1 (.next v) o
        have hal1 := emit_alive_async hi1 (.next v) o hr
        have hl2 := emit_log_async hi2 .complete o
        have hal2 := emit_alive_async hi2 .complete o hr2
        have ha2 : aliveOf (emit .async { st with ended := some .completed } (.next v)) o = true := by
          show ((emit .async _ (.next v)).obs o).alive = true
          rw [hal1]; simpa [Ev.isTerminal] using ha
        have hfz := frozen_runFrom (h.step .complete) o (step_seen_mono .async st _ o hseen h.inv)
          (by rw [hst, hal2]; simp [Ev.isTerminal]) cs
        rw [hfz.1, hst, hl2, if_pos ⟨hr2, ha2⟩, hl1, if_pos ⟨hr1, ha1⟩]
        simp [logOf, hlog, asyncExpect, asyncHandover]

/-- what `subscribe o` does for an unused id: hand-over of the recorded result, or registration -/
theorem async_subscribe_fresh (st : State) (o : Nat) (hu : (st.obs o).seen = false) :
    step .async st (.subscribe o) =
      match st.ended with
      | some (.failed e) => { st with obs := upd st.obs o { seen := true, log := [.error e] } }
      | some .completed => { st with obs := upd st.obs o { seen := true, log := asyncHandover st.lastItem } }
      | none => register st o { seen := true, alive := true, hook := true } := by
  simp only [step, subscribeB, Kind.isReplay, Bool.false_and, Bool.false_eq_true, ↓reduceIte, subscribeH,
    subscribeA, hu]
  cases st.ended with
  | none => rfl
  | some en => cases en <;> rfl

/-- **C10 `async_last_only`** (ReactiveX AsyncSubject): whatever was called before (`pre`) and after (`post`), a
    new subscriber gets the recorded error, or — the subject having completed — the last item (if any) and
    `complete`, at once; otherwise nothing until the terminal, and then exactly that. -/
theorem async_last_only (pre post : List Call) (o : Nat) (hfresh : Call.subscribe o ∉ pre) :
    logOf (run .async (pre ++ .subscribe o :: post)) o =
      match (asyncMem pre).1 with
      | some (.failed e) => [.error e]
      | some .completed => asyncHandover (asyncMem pre).2
      | none => asyncExpect o (asyncMem pre).2 post := by
  rw [run_append]
  have hu := unseen_of_not_subscribed .async pre o hfresh
  have hg := good_run .async pre
  have he := endedOk_run .async pre
  have hm := async_run_mem pre
  simp only [Prod.ext_iff] at hm
  rw [← hm.1, ← hm.2]
  show logOf (runFrom .async (step .async (run .async pre) (.subscribe o)) post) o = _
  have hst := async_subscribe_fresh (run .async pre) o hu
  have hseen := step_subscribe_marks .async (run .async pre) o
  cases hen : (run .async pre).ended with
  | none =>
    rw [hen] at hst
    have hli : (step .async (run .async pre) (.subscribe o)).lastItem = (run .async pre).lastItem := by rw [hst]; rfl
    rw [async_live_runFrom (hg.step _) (he.step _) o (by rw [hst, register_registered]; simp)
      (by rw [hst, register_obs]; simp), hli]
  | some en =>
    rw [hen] at hst
    have hd : ((step .async (run .async pre) (.subscribe o)).obs o).alive = false := by
      cases en <;> (rw [hst]; simp)
    have hfz := frozen_runFrom (hg.step (.subscribe o)) o hseen hd post
    rw [hfz.1]
    cases en <;> (rw [hst]; simp [logOf])

/-- `asyncExpect` of a subscriber that never unsubscribes = what the subject will have recorded -/
theorem asyncExpect_eq_result (o : Nat) (cs : List Call) (hun : Call.unsubscribe o ∉ cs) : ∀ last : Option Data,
    asyncExpect o last cs = asyncResultOf (cs.foldl asyncMemStep (none, last)) := by
  induction cs with
  | nil => intro last; rfl
  | cons c cs ih =>
    intro last
    have hun' : Call.unsubscribe o ∉ cs := fun h => hun (List.mem_cons_of_mem _ h)
    cases c with
    | subscribe o' => simpa [asyncExpect, asyncMemStep] using ih hun' last
    | unsubscribe o' =>
      have hne : o' ≠ o := fun e => hun (by rw [e]; exact List.mem_cons_self ..)
      simpa [asyncExpect, asyncMemStep, hne] using ih hun' last
    | next v => simpa [asyncExpect, asyncMemStep] using ih hun' (some v)
    | error e =>
      rw [List.foldl_cons, show asyncMemStep (none, last) (.error e) = (some (.failed e), last) from rfl,
        asyncMem_frozen _ _ rfl]
      rfl
    | complete =>
      rw [List.foldl_cons, show asyncMemStep (none, last) .complete = (some .completed, last) from rfl,
        asyncMem_frozen _ _ rfl]
      rfl

theorem asyncMem_append (a b : List Call) : asyncMem (a ++ b) = b.foldl asyncMemStep (asyncMem a) := by
  simp [asyncMem, List.foldl_append]

/-- **ReactiveX AsyncSubject, every subscriber**: a subscriber that does not unsubscribe — whether it subscribed
    before, between or after the items, or after the terminal — has received exactly `[last item (if any),
    complete]` once the subject has completed, exactly `[error]` once it has failed, and nothing before that. -/
theorem async_every_subscriber (cs : List Call) (o : Nat) (hsub : Call.subscribe o ∈ cs)
    (hun : Call.unsubscribe o ∉ cs) : logOf (run .async cs) o = asyncResultOf (asyncMem cs) := by
  obtain ⟨pre, post, rfl, hfresh⟩ := List.eq_append_cons_of_mem hsub
  have hun' : Call.unsubscribe o ∉ post := fun h => hun (by simp [h])
  rw [async_last_only pre post o hfresh, asyncMem_append]
  cases hen : (asyncMem pre).1 with
  | some en =>
    have hfr := asyncMem_frozen (Call.subscribe o :: post) (asyncMem pre) (by simp [hen])
    rw [hfr]
    cases en <;> simp [asyncResultOf, hen]
  | none =>
    have hp : asyncMem pre = (none, (asyncMem pre).2) := by rw [← hen]
    rw [asyncExpect_eq_result o post hun', List.foldl_cons]
    conv => rhs; rw [hp]
    rfl

/-- **nothing before the terminal** — for every observer, whatever it does -/
theorem async_silent_before_terminal (cs : List Call) (h : (asyncMem cs).1 = none) (o : Nat) :
    logOf (run .async cs) o = [] := by
  have key : ∀ (cs : List Call) (st : State), (st.ended = none → ∀ o, (st.obs o).log = []) →
      (runFrom .async st cs).ended = none → ∀ o, ((runFrom .async st cs).obs o).log = [] := by
    intro cs
    induction cs with
    | nil => intro st h1 h2; exact h1 h2
    | cons c cs ih =>
      intro st h1 h2
      refine ih (step .async st c) ?_ h2
      intro hen o
      have hm := async_step_mem st c
      simp only [Prod.ext_iff] at hm
      have hen0 : st.ended = none := by
        cases hx : st.ended with
        | none => rfl
        | some x => rw [hen, hx] at hm; simp [asyncMemStep] at hm
      have hl := h1 hen0
      cases c with
      | subscribe o' =>
        by_cases hne : o = o'
        · subst hne
          cases hs : (st.obs o).seen with
          | true => rw [step_subscribe_seen .async st o hs]; exact hl o
          | false => rw [async_subscribe_fresh st o hs, hen0, register_obs]; simp
        · rw [step_subscribe_other .async st o' o hne]; exact hl o
      | unsubscribe o' =>
        have := unsubscribe_log .async st o' o
        simp only [logOf] at this; rw [this]; exact hl o
      | next v =>
        have hst : step .async st (.next v) = { st with lastItem := some v } := by
          show emitK .async st (.next v) = _; simp [emitK, hen0]
        rw [hst]; exact hl o
      | error e => rw [hen, hen0] at hm; simp [asyncMemStep] at hm
      | complete => rw [hen, hen0] at hm; simp [asyncMemStep] at hm
  have hm := async_run_mem cs
  simp only [Prod.ext_iff] at hm
  exact key cs (init .async) (fun _ _ => rfl) (by rw [show runFrom .async (init .async) cs = run .async cs from rfl, hm.1]; exact h) o

/-- **`next` (and a second terminal) after the terminal changes nothing at all** -/
theorem async_ignores_after_terminal (cs : List Call) (c : Call) (ev : Ev) (hc : c.toEv? = some ev)
    (h : (asyncMem cs).1.isSome = true) : step .async (run .async cs) c = run .async cs := by
  have hm := async_run_mem cs
  simp only [Prod.ext_iff] at hm
  rw [step_emitK .async _ c ev hc]
  simp [emitK, hm.1, h]

/-- **after a terminal no observer is held**, whatever is called afterwards (late subscribers are handed the
    result and are not registered) -/
theorem async_no_observer_once_ended (cs : List Call) (h : (asyncMem cs).1.isSome = true) :
    registered (run .async cs) = [] := by
  have he := endedOk_run .async cs
  have hm := async_run_mem cs
  simp only [Prod.ext_iff] at hm
  simp only [EndedOk, Kind.isAsync, ↓reduceIte] at he
  simp [registered, he (by rw [hm.1]; exact h)]

/-- nothing is handed out before the subject terminates -/
theorem asyncExpect_silent (o : Nat) (last : Option Data) (cs : List Call)
    (h : ∀ c ∈ cs, c ≠ .complete ∧ ∀ e, c ≠ .error e) : asyncExpect o last cs = [] := by
  induction cs generalizing last with
  | nil => rfl
  | cons c cs ih =>
    have hc := h c (List.mem_cons_self ..)
    have ih' := fun l => ih l (fun c hc => h c (List.mem_cons_of_mem _ hc))
    cases c with
    | next v => simpa [asyncExpect] using ih' _
    | subscribe o' => simpa [asyncExpect] using ih' _
    | unsubscribe o' =>
      simp only [asyncExpect]; split
      · rfl
      · exact ih' _
    | error e => exact absurd rfl (hc.2 e)
    | complete => exact absurd rfl hc.1

example : logOf (run .async [.next (.int 1), .subscribe 0, .next (.int 2), .next (.int 3), .complete]) 0
    = [.next (.int 3), .complete] := by decide
example : logOf (run .async [.subscribe 0, .complete]) 0 = [.complete] := by decide
example : logOf (run .async [.subscribe 0, .next (.int 2), .error 5]) 0 = [.error 5] := by decide
example : logOf (run .async [.subscribe 0, .next (.int 2), .next (.int 3)]) 0 = [] := by decide
/-- the item emitted BEFORE the subscriber arrived is handed out on completion (the former defect, F17) -/
example : logOf (run .async [.next (.int 1), .subscribe 0, .complete]) 0 = [.next (.int 1), .complete] := by decide
/-- before / between / after the items / after the terminal: all four get the same; `next 9` after it is ignored -/
example :
    let st := run .async [.subscribe 0, .next (.int 1), .subscribe 1, .next (.int 2), .subscribe 2, .complete,
      .next (.int 9), .subscribe 3]
    (List.range 4).map (logOf st) = List.replicate 4 [.next (.int 2), .complete] ∧ registered st = [] := by decide

/-! ## non-vacuity of the hypotheses used above -/

/-- `delivers_to_current`: a state with a registered live observer (1), an unsubscribed one (0) and an unused id (2) -/
example :
    let st := run .plain [.subscribe 0, .subscribe 1, .next (.int 3), .unsubscribe 0]
    (1 ∈ registered st ∧ aliveOf st 1 = true) ∧ 0 ∉ registered st ∧ 2 ∉ registered st ∧
    logOf (step .plain st (.next (.int 4))) 1 = [.next (.int 3), .next (.int 4)] ∧
    logOf (step .plain st (.next (.int 4))) 0 = [.next (.int 3)] ∧
    logOf (step .plain st (.next (.int 4))) 2 = [] := by decide
/-- `no_observer_after_terminal`: the map was not empty before the terminal -/
example : registered (run .plain [.subscribe 0, .subscribe 1]) = [0, 1] ∧
    registered (step .plain (run .plain [.subscribe 0, .subscribe 1]) (.error 3)) = [] := by decide
/-- `no_observer_after_unsubscribe`: the observer was in the map before, and a later re-use of the id is refused -/
example : 0 ∈ registered (run .replay [.subscribe 0, .next (.int 1)]) ∧
    0 ∉ registered (run .replay ([.subscribe 0, .next (.int 1)] ++ .unsubscribe 0 :: [.subscribe 0, .next (.int 2)])) := by decide
/-- `terminated_not_registered` -/
example : nonTerminal (logOf (run .async [.subscribe 0, .complete]) 0) = false := by decide
/-- hand-over theorems: `pre` non-empty, other observers around, `post` non-empty -/
example : Call.subscribe 2 ∉ [Call.subscribe 0, .next (.int 1), .subscribe 1, .unsubscribe 0] := by decide

#print axioms delivers_to_current
#print axioms delivers_to_current_plain
#print axioms registered_alive
#print axioms no_observer_after_terminal
#print axioms terminated_not_registered
#print axioms replay_late_subscriber_not_held
#print axioms no_observer_after_unsubscribe
#print axioms plain_log_spec
#print axioms behavior_handover
#print axioms behavior_forgets_complete
#print axioms replay_handover
#print axioms replay_records_after_terminal
#print axioms async_last_only
#print axioms async_every_subscriber
#print axioms async_silent_before_terminal
#print axioms async_ignores_after_terminal
#print axioms async_no_observer_once_ended
#print axioms log_contract
#print axioms good_run

end Rx.SubjM
