import RxVerif.Theorems.Sim
/-
C14 — Each subscribe() runs an independent pipeline.

Machine layer: what a new subscriber of a standard operator over a deterministic cold source sees is a
function of the kernel and the script alone — it does not depend on the world the subscription starts
in, i.e. not on any earlier or concurrent subscription of the same Observable value
(`subscribe_independent`), and a subscription leaves the world ready for the next one
(`stays_ready`), so the statement iterates to the 2nd, 3rd, … subscription.
Where the crate allocated operator state once per operator instance instead of once per subscription
(concat, default_if_empty, tap, found by the C14 check and repaired by fix: commits) the model's
operators allocate inside `stdOp`/`create` as the repaired code does; the per-run correspondence
subscribes every pipeline 2–3 times (sequentially, interleaved on a hot source, under retry).
-/
namespace Rx.C14
open Rx

/-- **C14.** The k-th subscriber gets what a sole subscriber would have got. -/
theorem subscribe_independent {σ} (K : Kernel σ) (hK : Kernel.WellEncoded K) (w₁ w₂ : World)
    (h₁ : Sim.Ready w₁) (h₂ : Sim.Ready w₂) (tag₁ tag₂ : Nat) (s : Stream) :
    ∃ N, ∀ fuel, N ≤ fuel →
      logOf (run fuel [Sim.subscribeScript K tag₁ s] w₁) w₁.users.length
        = logOf (run fuel [Sim.subscribeScript K tag₂ s] w₂) w₂.users.length :=
  Sim.subscribe_independent K hK w₁ w₂ h₁ h₂ tag₁ tag₂ s

/-- in particular it equals the kernel run, which mentions no world at all -/
theorem every_subscription_is_the_kernel_run {σ} (K : Kernel σ) (hK : Kernel.WellEncoded K) (w : World)
    (hw : Sim.Ready w) (tag : Nat) (s : Stream) :
    ∃ N, ∀ fuel, N ≤ fuel → logOf (run fuel [Sim.subscribeScript K tag s] w) w.users.length = K.run s := by
  obtain ⟨N, h⟩ := Sim.stdOp_sim K hK w hw tag s
  exact ⟨N, fun fuel hf => (h fuel hf).2.1⟩

/-- earlier subscribers are not disturbed by a later subscription -/
theorem others_undisturbed {σ} (K : Kernel σ) (hK : Kernel.WellEncoded K) (w : World)
    (hw : Sim.Ready w) (tag : Nat) (s : Stream) :
    ∃ N, ∀ fuel, N ≤ fuel → ∀ s', s' ≠ w.users.length →
      logOf (run fuel [Sim.subscribeScript K tag s] w) s' = logOf w s' := by
  obtain ⟨N, h⟩ := Sim.stdOp_sim K hK w hw tag s
  exact ⟨N, fun fuel hf => (h fuel hf).2.2.1⟩

/-- and the world is ready for the next subscription -/
theorem stays_ready {σ} (K : Kernel σ) (hK : Kernel.WellEncoded K) (w : World) (hw : Sim.Ready w)
    (tag : Nat) (s : Stream) :
    ∃ N, ∀ fuel, N ≤ fuel → Sim.Ready (run fuel [Sim.subscribeScript K tag s] w) :=
  Sim.stdOp_ready K hK w hw tag s

end Rx.C14

-- non-vacuity: two successive subscriptions of `take 2` over the same script see the same thing
open Rx in
example :
    let p := Sim.subscribeScript (kTake 2) 0 ([.int 1, .int 2, .int 3], .complete)
    let w1 := run 400 [p] {}
    let w2 := run 400 [p] w1
    logOf w1 0 = logOf w2 1 ∧ logOf w2 0 = logOf w1 0 := by
  decide

#print axioms Rx.C14.subscribe_independent
#print axioms Rx.C14.every_subscription_is_the_kernel_run
#print axioms Rx.C14.others_undisturbed
#print axioms Rx.C14.stays_ready
