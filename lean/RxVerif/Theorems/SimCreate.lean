import RxVerif.Theorems.SimInterval
/-
SIM for the CREATION FUNCTIONS (src/observables/{just,empty,error,from_iter,range,never,start,from_result,timer}.rs):
for EVERY standard operator `stdOp K` (any well-encoded kernel) subscribed in ANY ready world directly over a creation
function, the new subscriber sees exactly `K.run` of the stream the creation function denotes (C02: "each creation function
delivers exactly the items, in exactly the order, and exactly the terminal"), nobody else is disturbed, and the observer
handed to the source ends unsubscribed iff the kernel cancelled it or the source delivered its terminal.
`just`, `empty`, `error` (and `start`, `from_result`, `timer` over the default scheduler, which are those programs) do NOT
poll `is_subscribed`: what they deliver after the operator has cancelled falls on a cleared observer (`rep_*U_dead`).
`from_iter` and `range` poll before every item.
-/
namespace Rx.Sim
open Rx

section dead
variable {c : Cfg} {al rg : Bool} {H : List (LockId × Bool)} {cs : Data} {out : List Ev} {w : World} {Q : World → Prop}

/-- deliveries into an upstream observer whose slots are cleared do nothing -/
theorem rep_nextU_dead {d : Data} {k : Prog} (h : Rep c al false rg H cs out w) (hk : WP k w Q) :
    WP (.obsNext c.U d k) w Q := by
  obtain ⟨n, w', hQ, hr⟩ := hk
  refine ⟨n + 1, w', hQ, fun fuel st => ?_⟩
  show run (fuel + n + 1) _ _ = _
  simp only [run, h.obsU, xU]
  exact hr fuel st

theorem rep_completeU_dead {k : Prog} (h : Rep c al false rg H cs out w) (hk : WP k w Q) :
    WP (.obsComplete c.U k) w Q := by
  obtain ⟨n, w', hQ, hr⟩ := hk
  refine ⟨n + 1, w', hQ, fun fuel st => ?_⟩
  show run (fuel + n + 1) _ _ = _
  simp only [run, h.obsU, xU]
  exact hr fuel st

theorem rep_errorU_dead {e : Nat} {k : Prog} (h : Rep c al false rg H cs out w) (hk : WP k w Q) :
    WP (.obsError c.U e k) w Q := by
  obtain ⟨n, w', hQ, hr⟩ := hk
  refine ⟨n + 1, w', hQ, fun fuel st => ?_⟩
  show run (fuel + n + 1) _ _ = _
  simp only [run, h.obsU, xU]
  exact hr fuel st

end dead

section handlers
variable {σ : Type} {K : Kernel σ} {c : Cfg}

/-- the source's own `complete`, polled or not: what the kernel's `on_complete` does if the upstream is still live,
    nothing otherwise -/
theorem completeU_spec (ok : c.Ok) (hh : Handlers K c) (hK : Kernel.WellEncoded K) (st : σ) (r : KRun) (w : World)
    (h : RepK c false r [] (K.enc st) w) :
    WP (.obsComplete c.U .done) w (fun w' => ∃ cs', RepK c true (finishX K st r .complete) [] cs' w') := by
  have h0 := h
  unfold RepK at h
  cases hc : r.cancelled with
  | true =>
    rw [hc] at h
    simp only [Bool.true_or, Bool.not_true] at h
    apply rep_completeU_dead h
    apply WP.done
    rw [finishX_cancelled _ _ _ hc]
    exact ⟨_, h0.cancelled_any _ hc⟩
  | false =>
    rw [hc] at h
    simp only [Bool.or_self, Bool.not_false] at h
    apply rep_completeU_live ok h
    intro w2 h2
    have h2' : RepK c true r [] (K.enc st) w2 := by simpa [RepK, hc] using h2
    apply (hc_spec ok hh hK st r w2 h2').conseq
    intro w3 h3
    apply WP.done
    simp only [finishX, hc, Bool.false_eq_true, ↓reduceIte]
    exact ⟨_, h3⟩

theorem errorU_spec (ok : c.Ok) (hh : Handlers K c) (hK : Kernel.WellEncoded K) (e : Nat) (st : σ) (r : KRun) (w : World)
    (h : RepK c false r [] (K.enc st) w) :
    WP (.obsError c.U e .done) w (fun w' => ∃ cs', RepK c true (finishX K st r (.error e)) [] cs' w') := by
  have h0 := h
  unfold RepK at h
  cases hc : r.cancelled with
  | true =>
    rw [hc] at h
    simp only [Bool.true_or, Bool.not_true] at h
    apply rep_errorU_dead h
    apply WP.done
    rw [finishX_cancelled _ _ _ hc]
    exact ⟨_, h0.cancelled_any _ hc⟩
  | false =>
    rw [hc] at h
    simp only [Bool.or_self, Bool.not_false] at h
    apply rep_errorU_live ok h
    intro w2 h2
    have h2' : RepK c true r [] (K.enc st) w2 := by simpa [RepK, hc] using h2
    apply (he_spec ok hh hK st e r w2 h2').conseq
    intro w3 h3
    apply WP.done
    simp only [finishX, hc, Bool.false_eq_true, ↓reduceIte]
    exact ⟨_, h3⟩

/-- one item, polled or not -/
theorem nextU_spec (ok : c.Ok) (hh : Handlers K c) (hK : Kernel.WellEncoded K) (d : Data) (k : Prog) (st : σ) (r : KRun)
    (w : World) (Q : World → Prop) (h : RepK c false r [] (K.enc st) w)
    (hk : ∀ w', RepK c false (feedX K st r [d]).2 [] (K.enc (feedX K st r [d]).1) w' → WP k w' Q) :
    WP (.obsNext c.U d k) w Q := by
  have h0 := h
  unfold RepK at h
  cases hc : r.cancelled with
  | true =>
    rw [hc] at h
    simp only [Bool.true_or, Bool.not_true] at h
    apply rep_nextU_dead h
    apply hk
    simpa [feedX, hc] using h0
  | false =>
    rw [hc] at h
    simp only [Bool.or_self, Bool.not_false] at h
    apply rep_nextU_live h
    apply (hn_spec ok hh hK st d r w h0).conseq
    intro w2 h2
    apply hk
    simpa [feedX, hc] using h2

theorem feedX_append (K : Kernel σ) (xs ys : List Data) : ∀ (st : σ) (r : KRun),
    feedX K st r (xs ++ ys) = feedX K (feedX K st r xs).1 (feedX K st r xs).2 ys := by
  induction xs with
  | nil => intro st r; rfl
  | cons x xs ih =>
    intro st r
    simp only [List.cons_append, feedX]
    cases hc : r.cancelled with
    | true =>
      simp only [↓reduceIte]
      induction ys generalizing st with
      | nil => rfl
      | cons y ys _ => simp [feedX, hc]
    | false => simp only [Bool.false_eq_true, ↓reduceIte]; exact ih _ _

theorem feedX_cancelled_id (K : Kernel σ) (xs : List Data) (st : σ) (r : KRun) (h : r.cancelled = true) :
    feedX K st r xs = (st, r) := by
  cases xs with
  | nil => rfl
  | cons x xs => simp [feedX, h]

/-- `just(d)`: `s.next(d); s.complete()` with no poll -/
theorem just_spec (ok : c.Ok) (hh : Handlers K c) (hK : Kernel.WellEncoded K) (d : Data) (st : σ) (r : KRun) (w : World)
    (h : RepK c false r [] (K.enc st) w) :
    WP (oJust d c.U) w (fun w' => ∃ cs', RepK c true
      (finishX K (feedX K st r [d]).1 (feedX K st r [d]).2 .complete) [] cs' w') := by
  unfold oJust
  apply nextU_spec ok hh hK d _ st r w _ h
  intro w1 h1
  exact completeU_spec ok hh hK _ _ w1 h1

/-- `from_iter`: `for x in it { if s.is_subscribed() { s.next(x) } else { break } }; if s.is_subscribed() { s.complete() }` -/
theorem fromIter_spec (ok : c.Ok) (hh : Handlers K c) (hK : Kernel.WellEncoded K) (ds : List Data) :
    ∀ (st : σ) (r : KRun) (w : World), RepK c false r [] (K.enc st) w →
      WP (fromIterLoop c.U ds) w (fun w' => ∃ cs', RepK c true
        (finishX K (feedX K st r ds).1 (feedX K st r ds).2 .complete) [] cs' w') := by
  induction ds with
  | nil =>
    intro st r w h
    simp only [fromIterLoop, feedX]
    have h0 := h
    unfold RepK at h
    apply rep_isSubU h
    cases hc : r.cancelled with
    | true =>
      simp only [Bool.true_or, Bool.not_true, Bool.false_eq_true, ↓reduceIte]
      apply WP.done
      rw [finishX_cancelled _ _ _ hc]
      exact ⟨_, h0.cancelled_any _ hc⟩
    | false =>
      simp only [Bool.or_self, Bool.not_false, ↓reduceIte]
      exact completeU_spec ok hh hK st r w h0
  | cons d ds ih =>
    intro st r w h
    simp only [fromIterLoop]
    have h0 := h
    unfold RepK at h
    apply rep_isSubU h
    cases hc : r.cancelled with
    | true =>
      simp only [Bool.true_or, Bool.not_true, Bool.false_eq_true, ↓reduceIte]
      apply rep_isSubU h
      simp only [hc, Bool.true_or, Bool.not_true, Bool.false_eq_true, ↓reduceIte]
      apply WP.done
      rw [feedX_cancelled_id K _ st r hc, finishX_cancelled _ _ _ hc]
      exact ⟨_, h0.cancelled_any _ hc⟩
    | false =>
      simp only [Bool.or_self, Bool.not_false, ↓reduceIte]
      apply nextU_spec ok hh hK d _ st r w _ h0
      intro w1 h1
      have := ih _ _ w1 h1
      have e : feedX K st r (d :: ds) = feedX K (feedX K st r [d]).1 (feedX K st r [d]).2 ds :=
        feedX_append K [d] ds st r
      rw [e]
      exact this

/-- `range`: `for x in a..a+n { if !s.is_subscribed() { break }; s.next(x) }; s.complete()` -/
theorem range_spec (ok : c.Ok) (hh : Handlers K c) (hK : Kernel.WellEncoded K) (ds : List Data) :
    ∀ (st : σ) (r : KRun) (w : World), RepK c false r [] (K.enc st) w →
      WP (rangeLoop c.U ds) w (fun w' => ∃ cs', RepK c true
        (finishX K (feedX K st r ds).1 (feedX K st r ds).2 .complete) [] cs' w') := by
  induction ds with
  | nil =>
    intro st r w h
    simp only [rangeLoop, feedX]
    exact completeU_spec ok hh hK st r w h
  | cons d ds ih =>
    intro st r w h
    simp only [rangeLoop]
    have h0 := h
    unfold RepK at h
    apply rep_isSubU h
    cases hc : r.cancelled with
    | true =>
      simp only [Bool.true_or, Bool.not_true, Bool.false_eq_true, ↓reduceIte]
      rw [feedX_cancelled_id K _ st r hc]
      exact completeU_spec ok hh hK st r w h0
    | false =>
      simp only [Bool.or_self, Bool.not_false, ↓reduceIte]
      apply nextU_spec ok hh hK d _ st r w _ h0
      intro w1 h1
      have := ih _ _ w1 h1
      have e : feedX K st r (d :: ds) = feedX K (feedX K st r [d]).1 (feedX K st r [d]).2 ds :=
        feedX_append K [d] ds st r
      rw [e]
      exact this

end handlers


/-! ### the statements -/

/-- a new subscriber subscribes `stdOp K` directly over the source `body` -/
def subscribeOver {σ} (K : Kernel σ) (body : Obsv) : Prog :=
  .obsvNew (stdOp K body) fun id => .userSub id (fun _ _ _ => .done) .done

/-- any UNPROBED source whose program, run against the closures of `stdOp K`, amounts to the stream `s` -/
theorem stdOp_sim_srcX {σ} (K : Kernel σ) (_hK : Kernel.WellEncoded K) (w : World) (hw : Ready w)
    (body : Nat → Prog) (s : Stream)
    (hbody : ∀ (c : Cfg), c.Ok → Handlers K c → ∀ (st : σ) (r : KRun) (w : World), RepK c false r [] (K.enc st) w →
      WP (body c.U) w (fun w' => ∃ cs', RepK c (s.2 != .silent)
        (finishX K (feedX K st r s.1).1 (feedX K st r s.1).2 s.2) [] cs' w')) :
    ∃ N, ∀ fuel, N ≤ fuel →
      let w' := run fuel [subscribeOver K body] w
      w'.status = .ok ∧
      logOf w' w.users.length = K.run s ∧
      (∀ s', s' ≠ w.users.length → logOf w' s' = logOf w s') ∧
      upstreamCancelled w w' = ((runFullX K s).cancelled || s.2 != .silent) ∧
      w'.held = [] := by
  let c := cfgGen (stdN K) (stdE K) (stdC K) w
  have ok : c.Ok := cfgGen_ok _ _ _ w
  have h1 : RepK c false {} [] (K.enc K.init)
      (setupW0 (stdN K) (stdE K) (stdC K) (K.enc K.init) (stdOp K body) w) :=
    setup_rep0 _ _ _ _ _ w (hw.inv.quiet _ (Nat.le_refl _))
  obtain ⟨n, w2, ⟨cs', h2⟩, hrun⟩ := hbody c ok (std_handlers K w) K.init {} _ h1
  refine ⟨n + 17, fun fuel hf => ?_⟩
  obtain ⟨k, rfl⟩ : ∃ k, fuel = k + 1 + 1 + 1 + n + 14 := ⟨fuel - (n + 17), by omega⟩
  have e : run (k + 1 + 1 + 1 + n + 14) [subscribeOver K body] w
      = w2.setUser w.users.length fun u => { u with ready := true } := by
    show run _ ((Prog.obsvNew (genOp (stdN K) (stdE K) (stdC K) (K.enc K.init) body) _) :: _) w = _
    rw [setup_run0 _ _ _ _ _ w hw.status hw.held]
    exact (hrun (k + 1 + 1 + 1) [.userReady w.users.length .done]).trans rfl
  simp only [e]
  unfold RepK at h2
  refine ⟨h2.status, ?_, h2.others, ?_, h2.held⟩
  · rw [← runFullX_out]; exact h2.log
  · have hu := h2.obsU
    show ((w2.obs[w.obs.length + 1]?).map Obs.isSub == some false) = _
    have hu' : w2.obs[w.obs.length + 1]? = some (xU c (!((runFullX K s).cancelled || s.2 != .silent))) := hu
    rw [hu']
    cases (runFullX K s).cancelled || s.2 != .silent <;> rfl

/-- **`just(d)`** (also `start(|| d)`, `from_result(Ok(d))`) under EVERY standard operator, in ANY ready world -/
theorem stdOp_sim_just {σ} (K : Kernel σ) (hK : Kernel.WellEncoded K) (w : World) (hw : Ready w) (d : Data) :
    ∃ N, ∀ fuel, N ≤ fuel →
      let w' := run fuel [subscribeOver K (oJust d)] w
      w'.status = .ok ∧ logOf w' w.users.length = K.run ([d], .complete) ∧
      (∀ s', s' ≠ w.users.length → logOf w' s' = logOf w s') ∧
      upstreamCancelled w w' = true ∧ w'.held = [] := by
  obtain ⟨N, h⟩ := stdOp_sim_srcX K hK w hw (oJust d) ([d], .complete)
    (fun c ok hh st r w' hr => just_spec ok hh hK d st r w' hr)
  refine ⟨N, fun fuel hf => ?_⟩
  have := h fuel hf
  have hs : (Ending.complete != Ending.silent) = true := rfl
  simp only [hs, Bool.or_true] at this
  exact this

/-- **`empty()`** -/
theorem stdOp_sim_empty {σ} (K : Kernel σ) (hK : Kernel.WellEncoded K) (w : World) (hw : Ready w) :
    ∃ N, ∀ fuel, N ≤ fuel →
      let w' := run fuel [subscribeOver K oEmpty] w
      w'.status = .ok ∧ logOf w' w.users.length = K.run ([], .complete) ∧
      (∀ s', s' ≠ w.users.length → logOf w' s' = logOf w s') ∧ w'.held = [] := by
  obtain ⟨N, h⟩ := stdOp_sim_srcX K hK w hw oEmpty ([], .complete)
    (fun c ok hh st r w' hr => completeU_spec ok hh hK st r w' hr)
  refine ⟨N, fun fuel hf => ?_⟩
  have := h fuel hf
  exact ⟨this.1, this.2.1, this.2.2.1, this.2.2.2.2⟩

/-- **`error(e)`** (also `from_result(Err(e))`): the payload `e` reaches the kernel's `on_error` unchanged (C04) -/
theorem stdOp_sim_error {σ} (K : Kernel σ) (hK : Kernel.WellEncoded K) (w : World) (hw : Ready w) (e : Nat) :
    ∃ N, ∀ fuel, N ≤ fuel →
      let w' := run fuel [subscribeOver K (oError e)] w
      w'.status = .ok ∧ logOf w' w.users.length = K.run ([], .error e) ∧
      (∀ s', s' ≠ w.users.length → logOf w' s' = logOf w s') ∧ w'.held = [] := by
  obtain ⟨N, h⟩ := stdOp_sim_srcX K hK w hw (oError e) ([], .error e)
    (fun c ok hh st r w' hr => errorU_spec ok hh hK e st r w' hr)
  refine ⟨N, fun fuel hf => ?_⟩
  have := h fuel hf
  exact ⟨this.1, this.2.1, this.2.2.1, this.2.2.2.2⟩

/-- **`from_iter(ds)`**, any item list -/
theorem stdOp_sim_fromIter {σ} (K : Kernel σ) (hK : Kernel.WellEncoded K) (w : World) (hw : Ready w) (ds : List Data) :
    ∃ N, ∀ fuel, N ≤ fuel →
      let w' := run fuel [subscribeOver K (oFromIter ds)] w
      w'.status = .ok ∧ logOf w' w.users.length = K.run (ds, .complete) ∧
      (∀ s', s' ≠ w.users.length → logOf w' s' = logOf w s') ∧ w'.held = [] := by
  obtain ⟨N, h⟩ := stdOp_sim_srcX K hK w hw (oFromIter ds) (ds, .complete)
    (fun c ok hh st r w' hr => fromIter_spec ok hh hK ds st r w' hr)
  refine ⟨N, fun fuel hf => ?_⟩
  have := h fuel hf
  exact ⟨this.1, this.2.1, this.2.2.1, this.2.2.2.2⟩

/-- **`range(a, n)`**: `a, a+1, .., a+n-1`, complete — any start, any count -/
theorem stdOp_sim_range {σ} (K : Kernel σ) (hK : Kernel.WellEncoded K) (w : World) (hw : Ready w) (a : Int) (n : Nat) :
    ∃ N, ∀ fuel, N ≤ fuel →
      let w' := run fuel [subscribeOver K (oRange a n)] w
      w'.status = .ok ∧
      logOf w' w.users.length = K.run ((List.range n).map (fun (i : Nat) => Data.int (a + (i : Int))), .complete) ∧
      (∀ s', s' ≠ w.users.length → logOf w' s' = logOf w s') ∧ w'.held = [] := by
  obtain ⟨N, h⟩ := stdOp_sim_srcX K hK w hw (oRange a n)
    ((List.range n).map (fun (i : Nat) => Data.int (a + (i : Int))), .complete)
    (fun c ok hh st r w' hr => range_spec ok hh hK _ st r w' hr)
  refine ⟨N, fun fuel hf => ?_⟩
  have := h fuel hf
  exact ⟨this.1, this.2.1, this.2.2.1, this.2.2.2.2⟩

/-- **`never()`** -/
theorem stdOp_sim_never {σ} (K : Kernel σ) (hK : Kernel.WellEncoded K) (w : World) (hw : Ready w) :
    ∃ N, ∀ fuel, N ≤ fuel →
      let w' := run fuel [subscribeOver K oNever] w
      w'.status = .ok ∧ logOf w' w.users.length = K.run ([], .silent) ∧
      (∀ s', s' ≠ w.users.length → logOf w' s' = logOf w s') ∧
      upstreamCancelled w w' = false ∧ w'.held = [] := by
  obtain ⟨N, h⟩ := stdOp_sim_srcX K hK w hw oNever ([], .silent)
    (fun c _ _ st r w' hr => WP.done ⟨_, hr⟩)
  refine ⟨N, fun fuel hf => ?_⟩
  have := h fuel hf
  simpa [runFullX, feedX, finishX] using this

/-- with the list specification of the operator (C02a): e.g. `from_iter(ds).take(n)` on the machine IS `Spec.take` -/
theorem take_fromIter_spec (n : Nat) (ds : List Data) (w : World) (hw : Ready w) :
    ∃ N, ∀ fuel, N ≤ fuel →
      logOf (run fuel [subscribeOver (kTake n) (oFromIter ds)] w) w.users.length = (Spec.take n (ds, .complete)).toEvs := by
  obtain ⟨N, h⟩ := stdOp_sim_fromIter (kTake n) (we_kTake n) w hw ds
  exact ⟨N, fun fuel hf => by rw [(h fuel hf).2.1, Rx.C02.take_spec]⟩

theorem take_range_spec (n : Nat) (a : Int) (m : Nat) (w : World) (hw : Ready w) :
    ∃ N, ∀ fuel, N ≤ fuel →
      logOf (run fuel [subscribeOver (kTake n) (oRange a m)] w) w.users.length
        = (Spec.take n ((List.range m).map (fun (i : Nat) => Data.int (a + (i : Int))), .complete)).toEvs := by
  obtain ⟨N, h⟩ := stdOp_sim_range (kTake n) (we_kTake n) w hw a m
  exact ⟨N, fun fuel hf => by rw [(h fuel hf).2.1, Rx.C02.take_spec]⟩

/-- `timer(d)` over the default scheduler is `just(())`, `start(f)` is `just(f())`, `defer(f)` subscribes what `f` returns:
    the theorems above apply to them as they stand (the programs are equal by unfolding) -/
theorem stdOp_sim_timerD {σ} (K : Kernel σ) (hK : Kernel.WellEncoded K) (w : World) (hw : Ready w) :
    ∃ N, ∀ fuel, N ≤ fuel →
      let w' := run fuel [subscribeOver K oTimerD] w
      w'.status = .ok ∧ logOf w' w.users.length = K.run ([.unit], .complete) ∧
      (∀ s', s' ≠ w.users.length → logOf w' s' = logOf w s') ∧
      upstreamCancelled w w' = true ∧ w'.held = [] :=
  stdOp_sim_just K hK w hw .unit

theorem stdOp_sim_start {σ} (K : Kernel σ) (hK : Kernel.WellEncoded K) (w : World) (hw : Ready w) (d : Data) :
    ∃ N, ∀ fuel, N ≤ fuel →
      let w' := run fuel [subscribeOver K (oStart d)] w
      w'.status = .ok ∧ logOf w' w.users.length = K.run ([d], .complete) ∧
      (∀ s', s' ≠ w.users.length → logOf w' s' = logOf w s') ∧
      upstreamCancelled w w' = true ∧ w'.held = [] :=
  stdOp_sim_just K hK w hw d

/-- `defer(f)`: `f().inner_subscribe(s)` - one more `is_subscribed` poll, then the deferred source's own program -/
theorem defer_spec {σ} {K : Kernel σ} {c : Cfg} (f : Obsv) (s : Stream)
    (hf : ∀ (st : σ) (r : KRun) (w : World), RepK c false r [] (K.enc st) w →
      WP (f c.U) w (fun w' => ∃ cs', RepK c (s.2 != .silent)
        (finishX K (feedX K st r s.1).1 (feedX K st r s.1).2 s.2) [] cs' w'))
    (st : σ) (r : KRun) (w : World) (h : RepK c false r [] (K.enc st) w) :
    WP (oDefer f c.U) w (fun w' => ∃ cs', RepK c (s.2 != .silent)
      (finishX K (feedX K st r s.1).1 (feedX K st r s.1).2 s.2) [] cs' w') := by
  unfold oDefer Obsv.sub
  have h0 := h
  unfold RepK at h
  apply rep_isSubU h
  cases hc : r.cancelled with
  | true =>
    simp only [Bool.true_or, Bool.not_true, Bool.false_eq_true, ↓reduceIte]
    apply WP.done
    rw [feedX_cancelled_id K _ st r hc, finishX_cancelled _ _ _ hc]
    exact ⟨_, h0.cancelled_any _ hc⟩
  | false =>
    simp only [Bool.or_self, Bool.not_false, ↓reduceIte]
    exact hf st r w h0

theorem stdOp_sim_defer_fromIter {σ} (K : Kernel σ) (hK : Kernel.WellEncoded K) (w : World) (hw : Ready w) (ds : List Data) :
    ∃ N, ∀ fuel, N ≤ fuel →
      let w' := run fuel [subscribeOver K (oDefer (oFromIter ds))] w
      w'.status = .ok ∧ logOf w' w.users.length = K.run (ds, .complete) ∧
      (∀ s', s' ≠ w.users.length → logOf w' s' = logOf w s') ∧ w'.held = [] := by
  obtain ⟨N, h⟩ := stdOp_sim_srcX K hK w hw (oDefer (oFromIter ds)) (ds, .complete)
    (fun c ok hh st r w' hr => defer_spec (oFromIter ds) (ds, .complete)
      (fun st r w hr => fromIter_spec ok hh hK ds st r w hr) st r w' hr)
  refine ⟨N, fun fuel hf => ?_⟩
  have := h fuel hf
  exact ⟨this.1, this.2.1, this.2.2.1, this.2.2.2.2⟩

/-- the objects the driver actually runs: `oRepeat d` and `oIntervalD` are the loops of SimInterval.lean with the bound 100000
    that stands for "endless"; under `take(n)`, n ≤ 100000, they deliver exactly n items, complete, and stop -/
theorem take_oRepeat (n : Nat) (d : Data) (hn : 1 ≤ n) (hle : n ≤ 100000) (w : World) (hw : Ready w) :
    ∃ N, ∀ fuel, N ≤ fuel →
      let w' := run fuel [subscribeOver (kTake n) (oRepeat d)] w
      w'.status = .ok ∧ logOf w' w.users.length = (List.replicate n d).map .next ++ [.complete] ∧
      upstreamCancelled w w' = true :=
  take_repeat n 100000 d hn hle w hw

theorem take_oIntervalD (n : Nat) (hn : 1 ≤ n) (hle : n ≤ 100000) (w : World) (hw : Ready w) :
    ∃ N, ∀ fuel, N ≤ fuel →
      let w' := run fuel [subscribeOver (kTake n) oIntervalD] w
      w'.status = .ok ∧ logOf w' w.users.length = (countFrom 0 n).map .next ++ [.complete] ∧
      upstreamCancelled w w' = true :=
  take_interval n 100000 hn hle w hw

/-- C14 for the creation functions: what a new subscriber of `stdOp K (from_iter ds)` sees does not depend on the world it
    subscribes in (how many subscriptions came before, what they did) -/
theorem fromIter_subscribe_independent {σ} (K : Kernel σ) (hK : Kernel.WellEncoded K) (w₁ w₂ : World)
    (h₁ : Ready w₁) (h₂ : Ready w₂) (ds : List Data) :
    ∃ N, ∀ fuel, N ≤ fuel →
      logOf (run fuel [subscribeOver K (oFromIter ds)] w₁) w₁.users.length
        = logOf (run fuel [subscribeOver K (oFromIter ds)] w₂) w₂.users.length := by
  obtain ⟨N1, a⟩ := stdOp_sim_fromIter K hK w₁ h₁ ds
  obtain ⟨N2, b⟩ := stdOp_sim_fromIter K hK w₂ h₂ ds
  refine ⟨max N1 N2, fun fuel hf => ?_⟩
  rw [(a fuel (by omega)).2.1, (b fuel (by omega)).2.1]

end Rx.Sim

-- non-vacuity: `take 1` over `just`, `range`, `from_iter` on the machine
open Rx in
example : logOf (run 400 [Sim.subscribeOver (kTake 1) (oRange 5 3)] {}) 0 = [.next (.int 5), .complete] := by decide
open Rx in
example : logOf (run 400 [Sim.subscribeOver (kTake 3) (oJust (.int 7))] {}) 0 = [.next (.int 7), .complete] := by decide

#print axioms Rx.Sim.stdOp_sim_just
#print axioms Rx.Sim.stdOp_sim_empty
#print axioms Rx.Sim.stdOp_sim_error
#print axioms Rx.Sim.stdOp_sim_fromIter
#print axioms Rx.Sim.stdOp_sim_range
#print axioms Rx.Sim.stdOp_sim_never
#print axioms Rx.Sim.take_fromIter_spec
#print axioms Rx.Sim.take_range_spec
#print axioms Rx.Sim.stdOp_sim_timerD
#print axioms Rx.Sim.stdOp_sim_start
#print axioms Rx.Sim.stdOp_sim_defer_fromIter
#print axioms Rx.Sim.fromIter_subscribe_independent
#print axioms Rx.Sim.take_oRepeat
#print axioms Rx.Sim.take_oIntervalD
