/-
Delivery invariant of the `Subject` LTS: for every observer `o` and producer thread `t` the deliveries of `t` to `o`
(newest first) carry consecutive call indices and the items of exactly these calls; while `o` is live (fn_next present)
the newest one is the latest call of `t` that already passed `o`.
-/
import RxVerif.Theorems.C12SubjectA

namespace Rx.Conc.Subject

def nextItems : List Call → List Data
  | [] => []
  | .next v :: r => v :: nextItems r
  | _ :: r => nextItems r

/-- the items thread `t` pushes, in program order -/
def progItems (progs : List (List Call)) (t : Nat) : List Data := nextItems (progs.getD t [])

/-- deliveries of producer `t` in a (newest first) log, as `(call index, item)` -/
def proj (t : Nat) (l : List (Nat × Nat × Data)) : List (Nat × Data) := (l.filter (·.1 == t)).map (·.2)

theorem proj_cons (t t' k : Nat) (v : Data) (l : List (Nat × Nat × Data)) :
    proj t ((t', k, v) :: l) = if t' = t then (k, v) :: proj t l else proj t l := by
  simp only [proj, List.filter_cons]
  by_cases h : t' = t <;> simp [h]

/-- how far thread `th` is with respect to observer `o`: `(n, strong)` — calls `0 .. n-1` have passed `o`;
`strong` = the thread holds a fetched callback of `o` for call `n` -/
def pos (th : Thread) (o : Nat) : Nat × Bool :=
  match th.pc with
  | .nx0 k _ => (k, false)
  | .nxL k _ snap => (if o ∈ snap then k else k + 1, false)
  | .nx2 k _ o' rest => if o = o' then (k, true) else (if o ∈ rest then k else k + 1, false)
  | _ => (th.cnt, false)

structure PairInv (P : List Data) (live pre : Bool) (L : List (Nat × Data)) (n : Nat) (strong : Bool) : Prop where
  desc : Desc P L
  le : top L ≤ n
  eq : (strong = true ∨ live = true) → L ≠ [] → top L = n
  full : (strong = true ∨ live = true) → pre = true → L.length = n
  pfx : pre = true → L.length = top L

theorem PairInv.weaken {P : List Data} {live live' pre : Bool} {L : List (Nat × Data)} {n : Nat} {b : Bool}
    (h : PairInv P live pre L n b) (hl : live' = true → live = true) : PairInv P live' pre L n b :=
  ⟨h.desc, h.le, fun hx => h.eq (hx.imp id hl), fun hx => h.full (hx.imp id hl), h.pfx⟩

def LocB (P : List Data) (th : Thread) : Prop :=
  th.cnt ≤ P.length ∧ nextItems th.todo = P.drop th.cnt ∧
  match th.pc with
  | .nx0 k v | .nxL k v _ | .nx2 k v _ _ => th.cnt = k + 1 ∧ P[k]? = some v
  | _ => True

structure InvB (progs : List (List Call)) (s : State) : Prop where
  loc : ∀ t : Nat, LocB (progItems progs t) (s.threads t)
  pair : ∀ o t : Nat, PairInv (progItems progs t) (s.obs o).fnNext (s.obs o).pre (proj t (s.obs o).rlog)
    (pos (s.threads t) o).1 (pos (s.threads t) o).2

theorem invB_init (progs : List (List Call)) (nPre : Nat) : InvB progs (init progs nPre) := by
  constructor
  · intro t
    simp [init, LocB, progItems]
  · intro o t
    have : ((init progs nPre).obs o).rlog = [] := by simp only [init]; split <;> rfl
    rw [this]
    simp only [init, pos, proj]
    constructor <;> simp [Desc, top]


theorem drop_eq_cons {α} {P : List α} {c : Nat} {v : α} {r : List α} (h : v :: r = P.drop c) :
    c + 1 ≤ P.length ∧ r = P.drop (c + 1) ∧ P[c]? = some v := by
  have hlt : c < P.length := by
    by_cases hc : c < P.length
    · exact hc
    · rw [List.drop_eq_nil_of_le (by omega)] at h; simp at h
  have h2 := List.drop_eq_getElem_cons hlt
  rw [h2] at h
  simp only [List.cons.injEq] at h
  refine ⟨hlt, h.2, ?_⟩
  rw [List.getElem?_eq_getElem hlt, h.1]

/-- generic re-establishment: thread `t` moved, observers changed -/
theorem invB_of {progs : List (List Call)} {s s' : State} (hB : InvB progs s) (t : Nat)
    (hthr : ∀ t', t' ≠ t → s'.threads t' = s.threads t')
    (hloc : LocB (progItems progs t) (s'.threads t))
    (hpair : ∀ o, PairInv (progItems progs t) (s'.obs o).fnNext (s'.obs o).pre (proj t (s'.obs o).rlog)
      (pos (s'.threads t) o).1 (pos (s'.threads t) o).2)
    (hother : ∀ o t' n b, t' ≠ t →
      PairInv (progItems progs t') (s.obs o).fnNext (s.obs o).pre (proj t' (s.obs o).rlog) n b →
      PairInv (progItems progs t') (s'.obs o).fnNext (s'.obs o).pre (proj t' (s'.obs o).rlog) n b) :
    InvB progs s' := by
  constructor
  · intro t'
    by_cases ht : t' = t
    · subst ht; exact hloc
    · rw [hthr t' ht]; exact hB.loc t'
  · intro o t'
    by_cases ht : t' = t
    · subst ht; exact hpair o
    · rw [hthr t' ht]; exact hother o t' _ _ ht (hB.pair o t')

/-- only thread `t` moved -/
theorem invB_thr {progs : List (List Call)} {s : State} (hB : InvB progs s) (t : Nat) (th' : Thread)
    (hloc : LocB (progItems progs t) th')
    (hpair : ∀ o, PairInv (progItems progs t) (s.obs o).fnNext (s.obs o).pre (proj t (s.obs o).rlog)
      (pos th' o).1 (pos th' o).2) :
    InvB progs { s with threads := setThr s t th' } := by
  refine invB_of hB t ?_ ?_ ?_ ?_
  · intro t' ht; simp [setThr, ht]
  · simpa [setThr] using hloc
  · simpa [setThr] using hpair
  · intro o t' n b _ h; exact h

/-- thread `t` moved without changing its position, one observer changed in fields the invariant ignores -/
theorem invB_same {progs : List (List Call)} {s : State} (hB : InvB progs s) (t : Nat) (th' : Thread) (o : Nat) (ob' : Obs)
    (map' : List (Nat × Nat)) (serial' : Nat)
    (hloc : LocB (progItems progs t) th')
    (hpos : ∀ o, pos th' o = pos (s.threads t) o)
    (h1 : (s.obs o).fnNext = true → ob'.fnNext = true) (h1' : ob'.fnNext = true → (s.obs o).fnNext = true) (h2 : ob'.pre = (s.obs o).pre) (h3 : ob'.rlog = (s.obs o).rlog) :
    InvB progs { obs := setObs s o ob', map := map', serial := serial', threads := setThr s t th' } := by
  have key : ∀ o' t' n b, PairInv (progItems progs t') (s.obs o').fnNext (s.obs o').pre (proj t' (s.obs o').rlog) n b →
      PairInv (progItems progs t') (setObs s o ob' o').fnNext (setObs s o ob' o').pre (proj t' (setObs s o ob' o').rlog) n b := by
    intro o' t' n b h
    simp only [setObs]
    split
    · rename_i ho; subst ho
      rw [h2, h3]
      have : ob'.fnNext = (s.obs o').fnNext := by
        cases h : ob'.fnNext <;> cases h' : (s.obs o').fnNext <;> simp_all
      rw [this]; exact h
    · exact h
  refine invB_of hB t ?_ ?_ ?_ ?_
  · intro t' ht; simp [setThr, ht]
  · simpa [setThr] using hloc
  · intro o'
    simp only [setThr, if_true]
    rw [hpos]
    exact key o' t _ _ (hB.pair o' t)
  · intro o' t' n b _ h; exact key o' t' n b h


theorem invB_step {progs : List (List Call)} {s s' : State} {t : Nat} (hA : InvA s) (hB : InvB progs s)
    (hs : stepT s t = some s') : InvB progs s' := by
  have hl := hB.loc t
  have hlA := hA.loc t
  have hp := fun o => hB.pair o t
  obtain ⟨hcnt, htodo, hpcB⟩ := hl
  cases hpc : (s.threads t).pc with
  | idle =>
    simp only [stepT, hpc] at hs
    simp only [pos, hpc] at hp
    split at hs
    · simp at hs
    · rename_i v rest htd
      simp at hs; subst hs
      rw [htd] at htodo
      obtain ⟨h1, h2, h3⟩ := drop_eq_cons htodo
      refine invB_thr hB t _ ⟨h1, h2, by simp [h3]⟩ ?_
      intro o; simpa [pos] using hp o
    · rename_i o rest htd
      split at hs
      · simp at hs
      · simp at hs; subst hs
        rw [htd] at htodo
        refine invB_same hB t _ o _ _ _ ⟨hcnt, htodo, by simp⟩ ?_ (by simp) (by simp) rfl rfl
        intro o'; simp [pos, hpc]
    · rename_i o rest htd
      simp at hs; subst hs
      rw [htd] at htodo
      refine invB_thr hB t _ ⟨hcnt, htodo, by simp⟩ ?_
      intro o'; simpa [pos] using hp o'
  | nx0 k v =>
    simp only [stepT, hpc, Option.some.injEq] at hs; subst hs
    simp only [pos, hpc] at hp
    rw [hpc] at hpcB; simp only at hpcB
    refine invB_thr hB t _ ⟨hcnt, htodo, hpcB⟩ ?_
    intro o
    by_cases hin : o ∈ s.map.map (·.2)
    · simpa [pos, hin] using hp o
    · simp only [pos, hin, if_false]
      have hcontra : (s.obs o).fnNext = true → (s.obs o).ins = true → False :=
        fun h1 h2 => hin (hA.live o h2 h1)
      refine ⟨(hp o).desc, Nat.le_succ_of_le (hp o).le, ?_, ?_, (hp o).pfx⟩
      · intro hx hne
        rcases hx with hx | hx
        · simp at hx
        · exact (hcontra hx (hA.logIns o (fun h0 => hne (by simp [proj, h0])))).elim
      · intro hx hpre
        rcases hx with hx | hx
        · simp at hx
        · exact (hcontra hx (hA.preIns o hpre)).elim
  | nxL k v snap =>
    rw [hpc] at hpcB hlA; simp only at hpcB
    simp only [LocA] at hlA
    simp only [pos, hpc] at hp
    cases snap with
    | nil =>
      simp only [stepT, hpc, Option.some.injEq] at hs; subst hs
      refine invB_thr hB t _ ⟨hcnt, htodo, by simp⟩ ?_
      intro o
      simpa [pos, hpcB.1] using hp o
    | cons o' rest =>
      simp only [stepT, hpc, Option.some.injEq] at hs; subst hs
      have hnotin : o' ∉ rest := (List.nodup_cons.mp hlA.1).1
      by_cases hfn : (s.obs o').fnNext = true
      · simp only [hfn, if_true]
        refine invB_thr hB t _ ⟨hcnt, htodo, hpcB⟩ ?_
        intro o
        by_cases ho : o = o'
        · subst ho
          have := hp o
          simp only [List.mem_cons, true_or, if_true] at this
          simp only [pos, if_true]
          exact ⟨this.desc, this.le, fun _ => this.eq (.inr hfn), fun _ => this.full (.inr hfn), this.pfx⟩
        · have := hp o
          simpa [pos, ho] using this
      · have hfn' : (s.obs o').fnNext = false := by simpa using hfn
        simp only [hfn', Bool.false_eq_true, if_false]
        refine invB_thr hB t _ ⟨hcnt, htodo, hpcB⟩ ?_
        intro o
        by_cases ho : o = o'
        · subst ho
          have := hp o
          simp only [List.mem_cons, true_or, if_true] at this
          simp only [pos, hnotin, if_false]
          refine ⟨this.desc, Nat.le_succ_of_le this.le, ?_, ?_, this.pfx⟩ <;>
          · intro hx; rcases hx with hx | hx
            · simp at hx
            · exact (hfn hx).elim
        · have := hp o
          simpa [pos, ho] using this
  | nx2 k v o' rest =>
    rw [hpc] at hpcB hlA; simp only at hpcB
    simp only [LocA] at hlA
    simp only [pos, hpc] at hp
    simp only [stepT, hpc, Option.some.injEq] at hs; subst hs
    have hnotin : o' ∉ rest := (List.nodup_cons.mp hlA.1).1
    refine invB_of hB t ?_ ?_ ?_ ?_
    · intro t' ht; simp [setThr, ht]
    · simpa [setThr] using ⟨hcnt, htodo, hpcB⟩
    · intro o
      simp only [setThr, if_true, setObs, pos]
      by_cases ho : o = o'
      · subst ho
        have := hp o
        simp only [if_true] at this
        simp only [if_true, hnotin, if_false, proj_cons]
        refine ⟨this.desc.cons hpcB.2 (this.eq (.inl rfl)), by simp [top], fun _ _ => by simp [top], ?_, ?_⟩
        · intro _ hpre
          simp [this.full (.inl rfl) hpre]
        · intro hpre
          simp [this.full (.inl rfl) hpre, top]
      · have := hp o
        simpa [ho] using this
    · intro o t' n b ht h
      simp only [setObs]
      split
      · rename_i ho; subst ho
        simp only [proj_cons, if_neg (Ne.symm ht)]
        exact h
      · exact h
  | s0 o =>
    simp only [stepT, hpc, Option.some.injEq] at hs; subst hs
    simp only [pos, hpc] at hp
    by_cases hfn : (s.obs o).fnNext = true
    · simp only [hfn, if_true]
      refine invB_thr hB t _ ⟨hcnt, htodo, by simp⟩ ?_
      intro o'; simpa [pos] using hp o'
    · have hfn' : (s.obs o).fnNext = false := by simpa using hfn
      simp only [hfn', Bool.false_eq_true, if_false]
      refine invB_thr hB t _ ⟨hcnt, htodo, by simp⟩ ?_
      intro o'; simpa [pos] using hp o'
  | s1 o =>
    simp only [stepT, hpc, Option.some.injEq] at hs; subst hs
    simp only [pos, hpc] at hp
    by_cases hfn : (s.obs o).fnNext = true
    · simp only [hfn, if_true]
      refine invB_thr hB t _ ⟨hcnt, htodo, by simp⟩ ?_
      intro o'; simpa [pos] using hp o'
    · have hfn' : (s.obs o).fnNext = false := by simpa using hfn
      simp only [hfn', Bool.false_eq_true, if_false]
      refine invB_thr hB t _ ⟨hcnt, htodo, by simp⟩ ?_
      intro o'; simpa [pos] using hp o'
  | s2 o =>
    simp only [stepT, hpc, Option.some.injEq] at hs; subst hs
    refine invB_same hB t _ o _ _ _ ⟨hcnt, htodo, by simp⟩ ?_ (by simp) (by simp) rfl rfl
    intro o'; simp [pos, hpc]
  | s3 o =>
    simp only [stepT, hpc, Option.some.injEq] at hs; subst hs
    refine invB_same hB t _ o _ _ _ ⟨hcnt, htodo, by simp⟩ ?_ (by simp) (by simp) rfl rfl
    intro o'; simp [pos, hpc]
  | s4 o =>
    simp only [stepT, hpc, Option.some.injEq] at hs; subst hs
    refine invB_same hB t _ o _ _ _ ⟨hcnt, htodo, by simp⟩ ?_ (by simp) (by simp) rfl rfl
    intro o'; simp [pos, hpc]
  | u0 o =>
    simp only [stepT, hpc, Option.some.injEq] at hs; subst hs
    simp only [pos, hpc] at hp
    have key : ∀ o' t' n b, PairInv (progItems progs t') (s.obs o').fnNext (s.obs o').pre (proj t' (s.obs o').rlog) n b →
        PairInv (progItems progs t') (setObs s o { s.obs o with fnNext := false } o').fnNext
          (setObs s o { s.obs o with fnNext := false } o').pre
          (proj t' (setObs s o { s.obs o with fnNext := false } o').rlog) n b := by
      intro o' t' n b h
      simp only [setObs]
      split
      · rename_i ho; subst ho
        exact h.weaken (by simp)
      · exact h
    refine invB_of hB t ?_ ?_ ?_ ?_
    · intro t' ht; simp [setThr, ht]
    · simpa [setThr] using ⟨hcnt, htodo, by simp⟩
    · intro o'
      simp only [setThr, if_true, pos]
      exact key o' t _ _ (hp o')
    · intro o' t' n b _ h; exact key o' t' n b h
  | u1 o =>
    simp only [stepT, hpc, Option.some.injEq] at hs; subst hs
    simp only [pos, hpc] at hp
    refine invB_thr hB t _ ⟨hcnt, htodo, by simp⟩ ?_
    intro o'; simpa [pos] using hp o'
  | u2 o =>
    simp only [stepT, hpc, Option.some.injEq] at hs; subst hs
    simp only [pos, hpc] at hp
    refine invB_thr hB t _ ⟨hcnt, htodo, by simp⟩ ?_
    intro o'; simpa [pos] using hp o'
  | u3 o =>
    simp only [stepT, hpc, Option.some.injEq] at hs; subst hs
    simp only [pos, hpc] at hp
    by_cases hfn : (s.obs o).td = true
    · simp only [hfn, if_true]
      refine invB_thr hB t _ ⟨hcnt, htodo, by simp⟩ ?_
      intro o'; simpa [pos] using hp o'
    · have hfn' : (s.obs o).td = false := by simpa using hfn
      simp only [hfn', Bool.false_eq_true, if_false]
      refine invB_thr hB t _ ⟨hcnt, htodo, by simp⟩ ?_
      intro o'; simpa [pos] using hp o'
  | u4 o =>
    simp only [stepT, hpc, Option.some.injEq] at hs; subst hs
    simp only [pos, hpc] at hp
    refine invB_of hB t ?_ ?_ ?_ ?_
    · intro t' ht; simp [setThr, ht]
    · simpa [setThr] using ⟨hcnt, htodo, by simp⟩
    · intro o'; simpa [setThr, pos] using hp o'
    · intro o' t' n b _ h; exact h
  | u5 o =>
    simp only [stepT, hpc, Option.some.injEq] at hs; subst hs
    refine invB_same hB t _ o _ _ _ ⟨hcnt, htodo, by simp⟩ ?_ (by simp) (by simp) rfl rfl
    intro o'; simp [pos, hpc]


theorem invB_reachable {progs : List (List Call)} {nPre : Nat} {s : State} (h : Reachable progs nPre s) :
    InvB progs s := by
  induction h with
  | init => exact invB_init progs nPre
  | step hr hs ih =>
    simp only [step] at hs
    split at hs
    · exact invB_step (invA_reachable hr) ih hs
    · simp at hs

end Rx.Conc.Subject
