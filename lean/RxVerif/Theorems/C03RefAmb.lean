import RxVerif.Theorems.C03RefMerge
/-
C03-REF, amb: model A's `oAmb` (Machine/Lib.lean, transliterating src/operators/amb.rs) over `k` plain hot
subjects REFINES the pure history machine `Comb.amb`.
-/
namespace Rx.CRef.Amb
open Rx.Sim Rx.Ref Rx.Comb Rx.CRef

def scOf (k : Nat) : Sctl := ⟨0, 2 * k, 2 * k + 1, 2 * k⟩

/-- amb.rs:38-78: as in merge source `i` gets serial `k-1-i` = observer `k-i`; the winner cell is `2k+2` -/
def lay (k : Nat) : Lay where
  k := k
  ser i := k - 1 - i
  ob i := k - i
  hn i x := ambIsWin (2 * k + 2) (k - 1 - i) fun b => if b then (scOf k).sinkNext x else (scOf k).abortObserve (k - 1 - i)
  he i e := ambIsWin (2 * k + 2) (k - 1 - i) fun b => if b then (scOf k).sinkError e else (scOf k).abortObserve (k - 1 - i)
  hc i := ambIsWin (2 * k + 2) (k - 1 - i) fun b =>
    if b then (scOf k).sinkCompleteForce else (scOf k).abortObserve (k - 1 - i)

theorem lay_ok (k : Nat) : (lay k).Ok where
  obPos := by intro i hi; simp only [lay] at *; omega
  obInj := by intro i j hi hj h; simp only [lay] at *; omega
  serInj := by intro i j hi hj h; simp only [lay] at *; omega

/-- the winner cell: `None`, or the winner's serial -/
def encWin (k : Nat) (win : Option Nat) : Data := Data.optEnc (win.map fun i => .int ((k - 1 - i : Nat) : Int))

theorem encWin_ne (k : Nat) (win : Option Nat) : encWin k win ≠ .unit := by
  cases win <;> simp [encWin, Data.optEnc]

structure R (k : Nat) (s : amb.State) (out : List Ev) (w : World) : Prop where
  rel : Rel (lay k) (fun _ => false) [] s.ctl ⟨encWin k s.winner, k, 1 + k⟩ out w
  win : ∀ v, s.winner = some v → v < k

/-- `is_win(serial)` (amb.rs:27-35) -/
theorem isWin_spec {k : Nat} {c : Ctl} {win : Option Nat} {out : List Ev} {w : World} {Q : World → Prop}
    (h : R k ⟨c, win⟩ out w) {i : Nat} (hi : i < k) (K : Bool → Prog)
    (hk : ∀ w1, R k ⟨c, amb.claim ⟨c, win⟩ i⟩ out w1 → WP (K (amb.isWin ⟨c, win⟩ i)) w1 Q) :
    WP (ambIsWin (2 * k + 2) (k - 1 - i) K) w Q := by
  simp only [ambIsWin]
  refine wp_cellRead h.rel.held ?_
  have hx := h.rel.xc
  simp only [lay] at hx
  rw [hx]
  cases win with
  | none =>
    simp only [encWin, Option.map_none, Data.optEnc, Data.optDec]
    refine wp_cellWrite h.rel.held ?_
    refine hk _ ⟨?_, ?_⟩
    · exact h.rel.setX (encWin_ne k none) _
    · intro v hv; simp only [amb.claim] at hv; cases hv; exact hi
  | some v =>
    have hv := h.win v rfl
    simp only [encWin, Option.map_some, Data.optEnc, Data.optDec, Data.toInt]
    have e : (((k - 1 - v : Nat) : Int) == ((k - 1 - i : Nat) : Int)) = (i == v) := by
      rw [Bool.eq_iff_iff]; simp only [beq_iff_eq]; omega
    rw [e]
    exact hk w h

abbrev callsOf (k : Nat) : Nat × Ev → Prog := callOf (sjs k)

/-- one history entry = `Comb.amb.step` -/
theorem step_spec (k : Nat) (s : amb.State) (out : List Ev) (w : World) (p : Nat × Ev) (h : R k s out w) :
    WP (callsOf k p) w (R k (amb.step s p).1 (out ++ (amb.step s p).2)) := by
  obtain ⟨i, ev⟩ := p
  obtain ⟨c, win⟩ := s
  have ok := lay_ok k
  rcases Nat.lt_or_ge i k with hi | hi
  · simp only [callsOf]; rw [callOf_lt hi]
    cases hlv : c.live.contains i with
    | false =>
      simp only [amb.step, Ctl.isLive, hlv, Bool.false_eq_true, ↓reduceIte, List.append_nil]
      exact (src_dead h.rel hi (by rw [hlv]; rfl) ev).conseq fun w1 h1 => ⟨h1, h.win⟩
    | true =>
      simp only [amb.step, Ctl.isLive, hlv, ↓reduceIte]
      refine src_live ok h.rel hi hlv rfl ev fun w1 h1 => ?_
      have hR : R k ⟨if ev.isTerminal then c.kill i else c, win⟩ out w1 := ⟨h1, h.win⟩
      cases hw : amb.isWin ⟨c, win⟩ i with
      | true =>
        have hw' : ∀ c', amb.isWin ⟨c', win⟩ i = true := fun _ => hw
        cases ev with
        | next d =>
          simp only [codeBody, lay, ↓reduceIte]
          refine isWin_spec hR hi _ fun w2 h2 => ?_
          simp only [hw', ↓reduceIte]
          exact (sinkNext_spec ok h2.rel d).conseq fun w3 h3 => ⟨h3, h2.win⟩
        | error e =>
          simp only [codeBody, lay, ↓reduceIte]
          refine isWin_spec hR hi _ fun w2 h2 => ?_
          simp only [hw', ↓reduceIte]
          exact (sinkError_spec ok h2.rel e).conseq fun w3 h3 => ⟨h3, h2.win⟩
        | complete =>
          simp only [codeBody, lay, ↓reduceIte]
          refine isWin_spec hR hi _ fun w2 h2 => ?_
          simp only [hw', ↓reduceIte]
          exact (sinkCompleteForce_spec ok h2.rel).conseq fun w3 h3 => ⟨h3, h2.win⟩
      | false =>
        have hw' : ∀ c', amb.isWin ⟨c', win⟩ i = false := fun _ => hw
        simp only [Bool.false_eq_true, ↓reduceIte, List.append_nil]
        have hab : ∀ w2, R k ⟨if ev.isTerminal then c.kill i else c, amb.claim ⟨c, win⟩ i⟩ out w2 →
            WP ((scOf k).abortObserve (k - 1 - i)) w2
              (R k ⟨(if ev.isTerminal then c.kill i else c).abort i, amb.claim ⟨c, win⟩ i⟩ out) :=
          fun w2 h2 => (abort_spec ok h2.rel hi).conseq fun w3 h3 => ⟨h3, h2.win⟩
        cases ev with
        | next d =>
          simp only [codeBody, lay]
          refine isWin_spec hR hi _ fun w2 h2 => ?_
          simp only [hw', Bool.false_eq_true, ↓reduceIte]
          exact hab w2 h2
        | error e =>
          simp only [codeBody, lay]
          refine isWin_spec hR hi _ fun w2 h2 => ?_
          simp only [hw', Bool.false_eq_true, ↓reduceIte]
          exact hab w2 h2
        | complete =>
          simp only [codeBody, lay]
          refine isWin_spec hR hi _ fun w2 h2 => ?_
          simp only [hw', Bool.false_eq_true, ↓reduceIte]
          exact hab w2 h2
  · simp only [callsOf]; rw [callOf_ge hi]
    have hlv : c.live.contains i = false := by
      cases q : c.live.contains i with
      | false => rfl
      | true => have := h.rel.liveLt i (by simpa using q); simp only [lay] at this; omega
    simp only [amb.step, Ctl.isLive, hlv, Bool.false_eq_true, ↓reduceIte, List.append_nil]
    exact WP.done h

theorem drive_amb (k : Nat) (H : History) (s : amb.State) (out : List Ev) (w : World) (h : R k s out w) :
    WP (drive (sjs k) H) w (R k (finalFrom amb.step s H) (out ++ runFrom amb.step s H)) :=
  drive_spec amb.step (R k) (callsOf k) (step_spec k) H s out w h

/-! ### the program -/

/-- `n+1` plain subjects; test user 0 subscribes to `s0.amb(&[s1, .., sn])`; then the history -/
def prog (n : Nat) (H : History) : Prog :=
  subjsNew (n + 1) fun sjs =>
    .obsvNew (oAmb (sjs.headD default).observable (sjs.tail.map Subj.observable)) fun id =>
    .userSub id noReact (drive sjs H)

def mk (k : Nat) : Nat → (Nat → Data → Prog) × (Nat → Nat → Prog) × (Nat → Prog) :=
  fun _ =>
    (fun serial x => ambIsWin (2 * k + 2) serial fun b => if b then (scOf k).sinkNext x else (scOf k).abortObserve serial,
     fun serial e => ambIsWin (2 * k + 2) serial fun b => if b then (scOf k).sinkError e else (scOf k).abortObserve serial,
     fun serial => ambIsWin (2 * k + 2) serial fun b =>
        if b then (scOf k).sinkCompleteForce else (scOf k).abortObserve serial)

theorem rel_W2 (k : Nat) (f : Nat → Prog) :
    Rel (lay k) (fun i => decide (0 ≤ i)) [] (Ctl.init k) ⟨encWin k none, k, 1 + k⟩ []
      (newObsWorld (scOf k) (mk k) (W2 (lay k) [.lnil] f) [] 0 k) :=
  CRef.rel_W2 (L := lay k) [.lnil] f (mk k) (fun s => k - 1 - s)
    (by intro s hs; simp only [lay] at *; omega) (by intro i hi; simp only [lay] at *; omega)
    (by intro i hi; simp only [lay] at *; omega) (by intro i hi; rfl)

theorem prog_spec (n : Nat) (H : History) :
    WP (prog n H) {} (R (n + 1) (finalFrom amb.step (amb.init (n + 1)) H) (amb.run (n + 1) H)) := by
  have ok := lay_ok (n + 1)
  unfold prog
  refine wp_subjsNew (n + 1) 0 {} _ _ rfl rfl ?_
  refine wp_obsvNew ?_
  refine wp_userSub (f := oAmb ((sjs (n + 1)).headD default).observable ((sjs (n + 1)).tail.map Subj.observable))
    rfl ?_
  simp only [oAmb, sctlNew]
  refine wp_cellNew (wp_cellNew (wp_slotNew (wp_obsSetOnUnsub rfl (wp_cellNew ?_))))
  have hlen : ((sjs (n + 1)).tail.map Subj.observable).length + 1 = n + 1 := by simp [sjs]
  rw [hlen]
  simp only [World.setObs, List.nil_append, List.length_nil, List.length_append, subjCells_length,
    List.length_replicate, List.length_cons, Nat.zero_add]
  have e2 : ∀ (W : World) p Q, W = W2 (lay (n + 1)) [.lnil] (oAmb ((sjs (n + 1)).headD default).observable
      ((sjs (n + 1)).tail.map Subj.observable)) → WP p (W2 (lay (n + 1)) [.lnil] (oAmb ((sjs (n + 1)).headD default).observable
      ((sjs (n + 1)).tail.map Subj.observable))) Q → WP p W Q := fun W p Q q hq => q ▸ hq
  refine e2 _ _ _ ?_ ?_
  · simp [W2, rootObs, Lay.sc, lay, scOf, sjs]
  refine wp_newObservers (scOf (n + 1)) (mk (n + 1)) (n + 1) _ _ [] 0 _ rfl (by simp [scOf]) (W2_ser (lay (n + 1)) _ _)
    (W2_map (lay (n + 1)) _ _) (by intro p hp; cases hp) ⟨_, rfl, rfl⟩ ?_
  have hol : (W2 (lay (n + 1)) [.lnil] (oAmb ((sjs (n + 1)).headD default).observable
      ((sjs (n + 1)).tail.map Subj.observable))).obs.length = 1 := rfl
  rw [hol, Merge.zip_eq]
  refine (subscribeAll_spec ok (L := lay (n + 1)) (c := Ctl.init (n + 1))
    (by intro i hi; simpa [Ctl.init, lay] using hi)
    (n + 1) 0 _ (by simp [lay]) (rel_W2 _ _)).conseq fun w1 h1 => ?_
  refine wp_userReady ?_
  have h2 := h1.setUser (fun u => { u with ready := true }) (fun _ => rfl)
  have h3 := drive_amb (n + 1) H (amb.init (n + 1)) [] _ ⟨h2, by intro v hv; cases hv⟩
  simpa [amb.run, sjs] using h3

/-- **C03-REF, amb.**  For EVERY history the amb program ends, for all sufficient fuel, with `status = ok`, no guard
    held, the user's log equal to the output of `Comb.amb`, and subject `i` holding one observer iff `i` is in the
    machine's final `live` set. -/
theorem amb_refines (n : Nat) (H : History) :
    ∃ n0, ∀ fuel, n0 ≤ fuel →
      Agrees (n + 1) (run fuel [prog n H] {}) (finalFrom amb.step (amb.init (n + 1)) H).ctl.live
        (amb.run (n + 1) H) := by
  obtain ⟨n0, w, hrel, hrun⟩ := WP.run_top (prog_spec n H)
  exact ⟨n0, fun fuel hf => by rw [hrun fuel hf]; exact hrel.rel.agrees⟩

/-- the C03 list specification transported to model A -/
theorem amb_machine_spec (n : Nat) (H : History) (hwf : WellFormed (n + 1) H) :
    ∃ n0, ∀ fuel, n0 ≤ fuel → (run fuel [prog n H] {}).status = .ok ∧
      logOf (run fuel [prog n H] {}) 0 = ambSpec H := by
  obtain ⟨n0, h⟩ := amb_refines n H
  exact ⟨n0, fun fuel hf => ⟨(h fuel hf).status, by rw [(h fuel hf).log, amb_spec _ H hwf]⟩⟩

/-! non-vacuity: three sources; source 2 wins, the losers abort themselves on their first signal -/
def demo : History :=
  [(2, .next (.int 1)), (0, .next (.int 2)), (2, .next (.int 3)), (1, .complete), (0, .next (.int 4)),
   (2, .complete), (2, .next (.int 5))]

example : (run 2000 [prog 2 demo] {}).status = .ok := by decide +kernel
example : logOf (run 2000 [prog 2 demo] {}) 0 = [.next (.int 1), .next (.int 3), .complete] := by decide +kernel
example : amb.run 3 demo = [.next (.int 1), .next (.int 3), .complete] := by decide +kernel
example : (List.range 3).map (regCount (run 2000 [prog 2 (demo.take 2)] {})) = [0, 1, 1] ∧
    (finalFrom amb.step (amb.init 3) (demo.take 2)).ctl.live = [1, 2] := by decide +kernel
example : WellFormed 3 (demo.take 6) := by decide
example : logOf (run 2000 [prog 2 (demo.take 6)] {}) 0 = ambSpec (demo.take 6) := by decide +kernel

#print axioms amb_refines
#print axioms amb_machine_spec

end Rx.CRef.Amb
