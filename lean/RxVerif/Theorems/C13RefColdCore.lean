import RxVerif.Theorems.C13RefAll
/-
C13-REF over a COLD synchronous source, part 1: the source side.

The source is the harness' instrumented cold source `(cold 0 ev…)` = `oScript 0 true script` (Machine/Lib.lean):
it records the observer it is handed (probe 0), then plays `script`, asking `is_subscribed()` before every event
(probe 1) and stopping politely when the answer is no.  It never calls `set_on_unsubscribe`, so the source
observers have no teardown; its emissions happen INSIDE `source.subscribe(..)`, i.e. before the `Subscription`
handle (its armed flag) exists: `armed` may be one shorter than `conns`.
-/
namespace Rx.CRef
open Rx.Sim Rx.SubjM Rx.Ref Rx.RefR

def coldSrc (script : List Ev) : Obsv := oScript 0 true script

def pickObs : Rec → Option Nat
  | .probe tag (.int o) => if tag % 4 == 0 then some o.toNat else none
  | _ => none

/-- observers handed to the instrumented source so far (`Rx.stashed` of Machine/Case.lean), oldest first -/
def coldObs (w : World) : List Nat := (probesOf w).filterMap pickObs

theorem coldObs_eq (w : World) : coldObs w = w.trace.filterMap pickObs := by
  unfold coldObs probesOf
  induction w.trace with
  | nil => rfl
  | cons r rest ih =>
    cases r with
    | ev s e =>
      have : pickObs (.ev s e) = none := rfl
      simp only [List.filter, isProbe, List.filterMap_cons, this]; exact ih
    | probe t d => simp only [List.filter, isProbe, List.filterMap_cons]; rw [ih]

/-- source subscriptions ever made / is one of them still subscribed (what the harness prints for a cold source) -/
def coldSubsOf (w : World) : Nat := (coldObs w).length
def coldLiveOf (w : World) : Bool := (coldObs w).any fun o => (w.obs[o]?.map Obs.isSub).getD false

def connObsC (fn : Data → Prog) (fe : Nat → Prog) (fc : Prog) (live : Bool) : Obs :=
  ⟨if live then some (.code fn) else none, if live then some (.code fe) else none,
   if live then some (.code fc) else none, none⟩

theorem connObsC_isSub (fn fe fc) (b : Bool) : (connObsC fn fe fc b).isSub = b := by cases b <;> rfl

/-- The source side over a cold source: the source observers, the armed flags of the handles that exist. -/
structure ConnsPartC (fn : Data → Prog) (fe : Nat → Prog) (fc : Prog) (acell : Nat → Nat)
    (cobs : List Nat) (w : World) (conns armed : List Bool) : Prop where
  lenC : cobs.length = conns.length
  lenA : armed.length ≤ conns.length ∧ conns.length ≤ armed.length + 1
  obs : ∀ i, i < conns.length → w.obs[rootAt cobs i]? = some (connObsC fn fe fc (conns.getD i false))
  acell : ∀ i, i < armed.length → w.cells[acell i]? = some (.bool (armed.getD i false))
  liveArmed : ∀ i, i < armed.length → conns.getD i false = true → armed.getD i false = true
  probes : coldObs w = cobs

theorem ConnsPartC.frame {fn fe fc acell cobs w w' conns armed} (h : ConnsPartC fn fe fc acell cobs w conns armed)
    (hobs : ∀ i, i < conns.length → w'.obs[rootAt cobs i]? = w.obs[rootAt cobs i]?)
    (hac : ∀ i, i < armed.length → w'.cells[acell i]? = w.cells[acell i]?)
    (hp : coldObs w' = coldObs w) : ConnsPartC fn fe fc acell cobs w' conns armed :=
  { h with
    obs := fun i hi => (hobs i hi) ▸ h.obs i hi
    acell := fun i hi => (hac i hi) ▸ h.acell i hi
    probes := hp ▸ h.probes }

theorem coldObs_of_probes {w w' : World} (h : probesOf w' = probesOf w) : coldObs w' = coldObs w := by
  unfold coldObs; rw [h]

theorem ConnsPartC.touch {fn fe fc acell cobs w w' conns armed J K}
    (h : ConnsPartC fn fe fc acell cobs w conns armed) (t : Touch J K w w')
    (hJ : ∀ i, i < conns.length → ¬ J (rootAt cobs i)) (hK : ∀ i, i < armed.length → ¬ K (acell i)) :
    ConnsPartC fn fe fc acell cobs w' conns armed :=
  h.frame (fun i hi => t.obs _ (hJ i hi)) (fun i hi => t.cells _ (hK i hi)) (coldObs_of_probes t.probes)

theorem set_getD_same (l : List Bool) (i : Nat) (b : Bool) (hi : i < l.length) : (l.set i b).getD i false = b := by
  simp [List.getD_eq_getElem?_getD, hi]

theorem set_getD_other (l : List Bool) {i j : Nat} (b : Bool) (h : i ≠ j) : (l.set i b).getD j false = l.getD j false := by
  simp [List.getD_eq_getElem?_getD, h]

/-- clearing the callbacks of source observer `i` (a terminal went through it / its handle was used) -/
theorem ConnsPartC.clear {fn fe fc acell cobs w conns armed} {roots : List Nat}
    (h : ConnsPartC fn fe fc acell cobs w conns armed) (g : Glob roots cobs w) (i : Nat) (hi : i < conns.length)
    (f : Obs → Obs) (hf : ∀ b, f (connObsC fn fe fc b) = connObsC fn fe fc false) :
    ConnsPartC fn fe fc acell cobs (w.setObs (rootAt cobs i) f) (conns.set i false) armed :=
  { lenC := by rw [List.length_set]; exact h.lenC
    lenA := by rw [List.length_set]; exact h.lenA
    obs := by
      intro j hj
      rw [List.length_set] at hj
      by_cases e : j = i
      · subst e
        rw [getElem?_setObs_same _ (h.obs j hj), hf, set_getD_same _ _ _ hj]
      · have : rootAt cobs i ≠ rootAt cobs j := fun x => e (g.cob_inj (h.lenC ▸ hj) (h.lenC ▸ hi) x.symm)
        rw [getElem?_setObs_other _ this, h.obs j hj, set_getD_other _ _ (Ne.symm e)]
    acell := h.acell
    liveArmed := by
      intro j hj hl
      by_cases e : j = i
      · subst e; rw [set_getD_same _ _ _ hi] at hl; cases hl
      · rw [set_getD_other _ _ (Ne.symm e)] at hl; exact h.liveArmed j hj hl
    probes := h.probes }

/-- what holds between two callbacks of the cold source's script -/
structure ColdInv (UR : World → SubjM.State → Prop) (fn : Data → Prog) (fe : Nat → Prog) (fc : Prog)
    (acell : Nat → Nat) (roots cobs : List Nat) (w : World) (st : ConnM.State) (armed : List Bool) : Prop where
  glob : Glob roots cobs w
  held : SlotReads w.held
  ur : UR w st.sub
  conns : ConnsPartC fn fe fc acell cobs w st.conns armed

theorem wp_probe {w : World} {Q : World → Prop} {t : Nat} {d : Data} {k : Prog}
    (hk : WP k (w.emit (.probe t d)) Q) : WP (.probe t d k) w Q :=
  wp_step _ _ (fun _ _ => by simp only [run]) hk

theorem emitEv_eq (s : Nat) (ev : Ev) : emitEv s ev = evProg ev s .done := by cases ev <;> rfl

theorem coldObs_probe1 (w : World) (t : Nat) (b : Bool) : coldObs (w.emit (.probe t (.bool b))) = coldObs w := by
  simp [coldObs_eq, World.emit, List.filterMap_append, pickObs]

theorem coldObs_probe0 (w : World) (o : Nat) : coldObs (w.emit (.probe 0 (.int (o : Nat)))) = coldObs w ++ [o] := by
  simp [coldObs_eq, World.emit, List.filterMap_append, pickObs]

/-- once the source observer's `fn_next` is gone, the rest of the script is skipped -/
theorem foldRecv_gate (k : ConnM.Kind) (m : Nat) (st : ConnM.State) (h : ¬ st.conns[m]? = some true) :
    ∀ script : List Ev, script.foldl (fun s ev => ConnM.connRecv k s m ev) st = st
  | [] => rfl
  | ev :: evs => by
    have : ConnM.connRecv k st m ev = st := by unfold ConnM.connRecv; simp [h]
    rw [List.foldl_cons, this]; exact foldRecv_gate k m st h evs

end Rx.CRef
