/-
C12, `BehaviorSubject`: the late-subscriber clause holds along QUIET runs (no `next` call overlaps a `subscribe`
call).
-/
import RxVerif.Theorems.C12BehaviorB

namespace Rx.Conc.Behavior

/-- PARTIAL THEOREM (BehaviorSubject).  Along runs in which no `next` call overlaps a `subscribe` call, an observer
`o` whose `subscribe` call has returned and that was not unsubscribed has received: first the value `x` its
subscription read from `last_item` (a value the subject held), then only broadcast deliveries, and from every producer
`t` that is not inside a `next` call right now exactly the items of ALL calls `t` made after that read — calls number
`base .. cnt-1`, each once, in order (`base = (s.obs o).base t` is the ghost count of `t`'s calls at the read).
(The FULL clause — the same for ALL runs — is false: `behavior_late_subscriber_violated`.) -/
theorem late_subscriber_value_then_all_later {progs : List (List Call)} {initial : Data} {s : State}
    (h : ReachableQ progs initial s) (o : Nat)
    (hsub : (s.obs o).subDone = true) (hlive : (s.obs o).fnNext = true) :
    ∃ x later, (s.obs o).hand = some x ∧ x ∈ s.vals ∧ s.received o = (none, 0, x) :: later ∧
      (∀ e ∈ later, e.1.isSome = true) ∧
      ∀ t, (s.threads t).pc.inNext = false →
        (later.filter (·.1 == some t)).map (·.2.2)
          = ((progItems progs t).drop ((s.obs o).base t)).take ((s.threads t).cnt - (s.obs o).base t) ∧
        (later.filter (·.1 == some t)).map (·.2.1)
          = List.range' ((s.obs o).base t) ((s.threads t).cnt - (s.obs o).base t) := by
  have hA := invA_reachable h.reachable
  have hB := invB_reachableQ h
  obtain ⟨x, r, hx, hr, hall⟩ := hA.handFirst o (hA.insLog o (hA.subIns o hsub))
  refine ⟨x, r.reverse, hx, hB.handIn o x hx, by simp [State.received, hr], by simpa using hall, ?_⟩
  intro t ht
  have hf := hB.full o t
  rw [(pos_of_not_inNext ht o).1] at hf
  obtain ⟨ha, hl⟩ := hf hsub (.inr hlive)
  have hp : proj t (s.obs o).rlog = proj t r := by
    rw [hr, proj_append]; simp [proj]
  rw [hp] at ha hl
  have hlen : (proj t r).reverse.length = (s.threads t).cnt - (s.obs o).base t := by
    rw [List.length_reverse]; dsimp only at hl; omega
  have hfil : (r.reverse.filter (·.1 == some t)).map (·.2) = (proj t r).reverse := by
    simp [proj, List.filter_reverse]
  have hv := Asc.vals ha
  have hi := Asc.indices ha
  rw [hlen] at hv hi
  rw [← hfil] at hv hi
  constructor
  · simpa [List.map_map, Function.comp_def] using hv
  · simpa [List.map_map, Function.comp_def] using hi

/-! ### quiet replay (decidable check of quietness after every step) -/

theorem stepT_threads_ne {s s' : State} {t t' : Nat} (hs : stepT s t = some s') (hne : t' ≠ t) :
    s'.threads t' = s.threads t' := by
  simp only [stepT] at hs
  repeat' split at hs
  all_goals first
    | (simp at hs; done)
    | (simp only [Option.some.injEq] at hs; subst hs; simp [setThr, hne])

/-- threads without a program never move -/
theorem idle_beyond {progs : List (List Call)} {initial : Data} {s : State} (h : Reachable progs initial s) (t : Nat)
    (ht : progs.length ≤ t) : (s.threads t).pc = .idle ∧ (s.threads t).todo = [] := by
  induction h with
  | init => simp [init, List.getD, List.getElem?_eq_none ht]
  | @step s1 s2 l _ hs ih =>
    simp only [step] at hs
    split at hs
    · by_cases hl : t = l.1
      · subst hl
        simp [stepT, ih.1, ih.2] at hs
      · rw [stepT_threads_ne hs hl]; exact ih
    · simp at hs

/-- `quiet` restricted to threads `0 .. n-1`, decidable -/
def State.quietB (s : State) (n : Nat) : Bool :=
  (List.range n).all fun t => (List.range n).all fun t' =>
    !((s.threads t).pc.inSub && (s.threads t').pc.inNext)

theorem quiet_of_quietB {progs : List (List Call)} {initial : Data} {s : State} (h : Reachable progs initial s)
    (hq : s.quietB progs.length = true) : s.quiet := by
  intro t t' h1 h2
  have ht : t < progs.length := by
    by_cases ht : t < progs.length
    · exact ht
    · have := (idle_beyond h t (Nat.le_of_not_lt ht)).1
      simp [this, Pc.inSub] at h1
  have ht' : t' < progs.length := by
    by_cases ht' : t' < progs.length
    · exact ht'
    · have := (idle_beyond h t' (Nat.le_of_not_lt ht')).1
      simp [this, Pc.inNext] at h2
  simp only [State.quietB, List.all_eq_true, List.mem_range] at hq
  have := hq t ht t' ht'
  simp [h1, h2] at this

def replayQFrom (n : Nat) (s : State) : List Label → Option State
  | [] => some s
  | l :: ls => match step s l with
    | some s' => if s'.quietB n then replayQFrom n s' ls else none
    | none => none

theorem reachableQ_of_replayQFrom {progs : List (List Call)} {initial : Data} {s s' : State}
    (h : ReachableQ progs initial s) {ls : List Label}
    (hr : replayQFrom progs.length s ls = some s') : ReachableQ progs initial s' := by
  induction ls generalizing s with
  | nil => simp [replayQFrom] at hr; subst hr; exact h
  | cons l ls ih =>
    simp only [replayQFrom] at hr
    split at hr
    · rename_i s1 hs
      split at hr
      · rename_i hq
        exact ih (.step h hs (quiet_of_quietB (.step h.reachable hs) hq)) hr
      · simp at hr
    · simp at hr

/-! ### non-vacuity: 2 producers × 2 items and a late subscriber, no `next` overlapping the `subscribe` -/

def exProgs : List (List Call) :=
  [[.next (.int 1), .next (.int 2)], [.next (.int 10), .next (.int 20)], [.subscribe 0]]

/-- both producers push once, then observer 0 subscribes (handed 10), then both producers push concurrently -/
def exRun : List Label :=
  [(0, .call), (0, .setLast), (1, .call), (1, .setLast), (0, .snap), (1, .snap), (0, .ret), (1, .ret),
   (2, .call), (2, .isSub1), (2, .rdLast), (2, .rdErr), (2, .hfetch), (2, .hdeliver), (2, .isSub2), (2, .setTd),
   (2, .serial), (2, .setTdF), (2, .insert), (2, .setSbsc),
   (0, .call), (1, .call), (0, .setLast), (1, .setLast), (1, .snap), (0, .snap), (1, .fetch), (1, .ofetch),
   (1, .deliver), (0, .fetch), (0, .ofetch), (0, .deliver), (0, .ret), (1, .ret)]

def exFinal : Option State := replayQFrom 3 (init exProgs (.int 0)) exRun

def State.exVerdict (s : State) : Bool × Bool × List Data × List Data :=
  ((s.obs 0).subDone, (s.obs 0).fnNext, s.recvVals 0, s.vals)

theorem exFinal_verdict : exFinal.map State.exVerdict =
    some (true, true, [.int 10, .int 20, .int 2], [.int 0, .int 1, .int 10, .int 2, .int 20]) := by
  decide +kernel

/-- the hypotheses of the partial theorem are satisfiable by a non-trivial run -/
theorem partial_hypotheses_satisfiable : ∃ s, ReachableQ exProgs (.int 0) s ∧ (s.obs 0).subDone = true ∧
    (s.obs 0).fnNext = true ∧ s.recvVals 0 = [.int 10, .int 20, .int 2] := by
  have hv := exFinal_verdict
  cases hs : exFinal with
  | none => rw [hs] at hv; simp at hv
  | some s =>
    rw [hs] at hv
    simp only [Option.map_some, State.exVerdict, Option.some.injEq, Prod.mk.injEq] at hv
    obtain ⟨h1, h2, h3, _⟩ := hv
    exact ⟨s, reachableQ_of_replayQFrom (progs := exProgs) .init hs, h1, h2, h3⟩

end Rx.Conc.Behavior
