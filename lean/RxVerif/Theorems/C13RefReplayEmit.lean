import RxVerif.Theorems.C13RefReplayCore
/-
C13-REF, replay: `ReplaySubject::next/error/complete` reaching the users through their forwarders.
-/
namespace Rx.CRef
open Rx.Sim Rx.SubjM Rx.Ref Rx.RefR

def JR (L : LayR) : Nat → Prop := InRoots (L.roots ++ L.fwds)

theorem codeBody_fwdL (ev : Ev) (k : Nat) :
    codeBody ev (fun x => .obsNext k x .done) (fun e => .obsError k e .done) (.obsComplete k .done) =
      evProg ev k .done := by
  cases ev <;> rfl

/-- `UsersPartR.patch` when only observers and the trace change -/
theorem UsersPartR.patchObs {L pend unst w s cobs} (h : UsersPartR L pend unst w s)
    (g : Glob (L.roots ++ L.fwds) cobs w) {o : Nat} (ho : o < L.roots.length) (w' : World) (r' : ObsSt)
    (hcells : w'.cells = w.cells) (husers : w'.users = w.users)
    (hothers : ∀ i, i ≠ rootAt L.roots o → i ≠ rootAt L.fwds o → w'.obs[i]? = w.obs[i]?)
    (hlogs : ∀ u, u ≠ o → logOf w' u = logOf w u)
    (hroot : w'.obs[rootAt L.roots o]? = some (rootOfL (rootAt L.sbs o) o r'))
    (hfwd : w'.obs[rootAt L.fwds o]? = some (fwdOfL (rootAt L.roots o) r'))
    (hlog : logOf w' o = r'.log) (hhook : r'.hook = (s.obs o).hook) (harmed : r'.armed = (s.obs o).armed)
    (hseen : r'.seen = true) (hdead : r'.hook = false → r'.alive = false) :
    UsersPartR L pend unst w' { s with obs := upd s.obs o r' } := by
  have U := h.users o ho
  exact h.patch g ho w' r' s.observers (by rw [hcells]) (by rw [hcells]; exact h.cellO) (fun i _ _ => by rw [hcells])
    (fun x => by rw [hcells, harmed]; exact U.ac x) (fun x => by rw [harmed]; exact U.unarmed x) (by rw [husers])
    (fun i _ => by rw [husers])
    (by obtain ⟨rd, h1, h2⟩ := U.user; exact ⟨rd, by rw [husers, hhook]; exact h1, h2⟩)
    hothers hlogs hroot hfwd hlog hseen hdead h.keys h.regBound

theorem touch_of_obs {J : Nat → Prop} (w w' : World) (hst : w'.status = w.status) (hh : w'.held = w.held)
    (hs : w'.slots = w.slots) (hv : w'.obsvs = w.obsvs) (hu : w'.users = w.users) (hc : w'.cells = w.cells)
    (hl : w'.obs.length = w.obs.length) (ho : ∀ j, ¬ J j → w'.obs[j]? = w.obs[j]?)
    (hp : probesOf w' = probesOf w) : Touch J NoCell w w' :=
  ⟨hst, hh, hs, hv, hu, hl, ho, by rw [hc], fun _ _ => by rw [hc], hp⟩

/-- one entry of the snapshot: the forwarder's callback, which calls the subscriber's (replay_subject.rs:87-93) -/
theorem deliverL1_spec {L pend unst w s cobs} (g : Glob (L.roots ++ L.fwds) cobs w)
    (h : UsersPartR L pend unst w s) (ev : Ev) (o : Nat) (hlt : o < L.roots.length) :
    WP (evProg ev (rootAt L.fwds o) .done) w (fun w' =>
      UsersPartR L pend unst w' { s with obs := upd s.obs o (recvK .replay ev (s.obs o)) } ∧
      Touch (JR L) NoCell w w') := by
  have U := h.users o hlt
  have hlf : o < L.fwds.length := h.lenF ▸ hlt
  have hne : rootAt L.fwds o ≠ rootAt L.roots o := fun x => GlobR.root_ne_fwd g hlt hlf x.symm
  have hJr : JR L (rootAt L.roots o) := GlobR.root_mem hlt
  have hJf : JR L (rootAt L.fwds o) := GlobR.fwd_mem hlf
  cases hia : (s.obs o).inAlive with
  | false =>
    refine wp_ev_dead U.fwd (by simp [fwdOfL, hia]) (WP.done ⟨?_, Touch.refl _ _ _⟩)
    rw [recvK_replay_dead ev _ hia, upd_self]; exact h
  | true =>
    refine wp_ev_code U.fwd (by simp [fwdOfL, hia]; rfl) (by simp [fwdOfL, hia]; rfl) (by simp [fwdOfL, hia]; rfl) ?_
    rw [codeBody_fwdL]
    generalize hw1 : (if ev.isTerminal then w.setObs (rootAt L.fwds o) Obs.cleared else w) = w1
    have c1 : w1.cells = w.cells := by rw [← hw1]; split <;> rfl
    have u1 : w1.users = w.users := by rw [← hw1]; split <;> rfl
    have t1 : w1.trace = w.trace := by rw [← hw1]; split <;> rfl
    have m1 : w1.status = w.status ∧ w1.held = w.held ∧ w1.slots = w.slots ∧ w1.obsvs = w.obsvs := by
      rw [← hw1]; split <;> exact ⟨rfl, rfl, rfl, rfl⟩
    have l1 : w1.obs.length = w.obs.length := by rw [← hw1]; split <;> simp [World.setObs]
    have o1 : ∀ j, j ≠ rootAt L.fwds o → w1.obs[j]? = w.obs[j]? := by
      intro j hj; rw [← hw1]; split
      · exact getElem?_setObs_other _ (Ne.symm hj)
      · rfl
    have f1 : w1.obs[rootAt L.fwds o]? = some (fwdOfL (rootAt L.roots o)
        { s.obs o with inAlive := (s.obs o).inAlive && !ev.isTerminal }) := by
      rw [← hw1]; split
      · rename_i ht; rw [getElem?_setObs_same _ U.fwd]; simp [fwdOfL, hia, ht, Obs.cleared]
      · rename_i ht; rw [U.fwd]; simp [fwdOfL, hia, ht]
    have r1 : w1.obs[rootAt L.roots o]? = some (rootOfL (rootAt L.sbs o) o (s.obs o)) := by
      rw [o1 _ (Ne.symm hne)]; exact U.root
    cases hal : (s.obs o).alive with
    | false =>
      refine wp_ev_dead r1 (by simp [rootOfL, hal, cbN]) (WP.done (WP.done ⟨?_, ?_⟩))
      · refine h.patchObs g hlt w1 _ c1 u1 (fun j _ h2 => o1 j h2) (fun u _ => by simp only [logOf, t1])
          (by rw [r1]; simp [rootOfL, recvK, hal]) (by rw [f1]; simp [fwdOfL, recvK, hia]) ?_ rfl rfl U.seen ?_
        · have : logOf w1 o = logOf w o := by simp only [logOf, t1]
          rw [this, U.log]; simp [recvK, hal]
        · intro _; simp [recvK, hia, hal]
      · exact touch_of_obs w w1 m1.1 m1.2.1 m1.2.2.1 m1.2.2.2 u1 c1 l1 (fun j hj => o1 j (fun e => hj (by rw [e]; exact hJf)))
          (by simp only [probesOf, t1])
    | true =>
      obtain ⟨rd, hua, _⟩ := U.user
      refine wp_ev_user (s := o) r1 (by simp [rootOfL, hal, cbN]) (by simp [rootOfL, hal, cbE])
        (by simp [rootOfL, hal, cbC]) (by rw [u1]; exact hua) rfl (WP.done (WP.done ⟨?_, ?_⟩))
      · have hobs2 : (w1.deliverTo (rootAt L.roots o) o ev).obs =
            if ev.isTerminal then w1.obs.modify (rootAt L.roots o) Obs.cleared else w1.obs := deliverTo_obs _ _ _ _
        refine h.patchObs g hlt _ _ ?_ ?_ ?_ ?_ ?_ ?_ ?_ rfl rfl U.seen ?_
        · rw [← c1]; unfold World.deliverTo; split <;> rfl
        · rw [← u1]; unfold World.deliverTo; split <;> rfl
        · intro j h1 h2
          rw [hobs2]; split
          · rw [modify_get_other _ _ (Ne.symm h1)]; exact o1 j h2
          · exact o1 j h2
        · intro u hu
          rw [logOf_deliverTo_other _ _ _ _ _ (fun e => hu e.symm)]; simp only [logOf, t1]
        · rw [hobs2]; split
          · rename_i ht
            rw [modify_get_same _ _ r1]; simp [rootOfL, recvK, hal, hia, ht, Obs.cleared, cbN, cbE, cbC]
          · rename_i ht
            rw [r1]; simp [rootOfL, recvK, hal, hia, ht]
        · rw [hobs2]; split
          · rw [modify_get_other _ _ (Ne.symm hne), f1]; simp [fwdOfL, recvK, hia]
          · rw [f1]; simp [fwdOfL, recvK, hia]
        · rw [logOf_deliverTo_same]
          have : logOf w1 o = logOf w o := by simp only [logOf, t1]
          rw [this, U.log]; simp [recvK, hia, hal]
        · intro hh
          cases ht : ev.isTerminal with
          | true => simp [recvK, hia, ht]
          | false => have := U.dead hh; simp [hal] at this
      · refine touch_of_obs w _ ?_ ?_ ?_ ?_ ?_ ?_ ?_ ?_ (by rw [probesOf_deliverTo]; simp only [probesOf, t1])
        · rw [← m1.1]; unfold World.deliverTo; split <;> rfl
        · rw [← m1.2.1]; unfold World.deliverTo; split <;> rfl
        · rw [← m1.2.2.1]; unfold World.deliverTo; split <;> rfl
        · rw [← m1.2.2.2]; unfold World.deliverTo; split <;> rfl
        · rw [← u1]; unfold World.deliverTo; split <;> rfl
        · rw [← c1]; unfold World.deliverTo; split <;> rfl
        · rw [deliverTo_obs]; split <;> simp [l1]
        · intro j hj
          rw [deliverTo_obs]; split
          · rw [modify_get_other _ _ (fun e => hj (by rw [← e]; exact hJr))]; exact o1 j (fun e => hj (by rw [e]; exact hJf))
          · exact o1 j (fun e => hj (by rw [e]; exact hJf))

theorem deliverL_loop {L pend unst cobs} (ev : Ev) (l : List (Nat × Nat)) (hl : ∀ p ∈ l, p.2 < L.roots.length) :
    ∀ (s : SubjM.State) (w : World), Glob (L.roots ++ L.fwds) cobs w → UsersPartR L pend unst w s →
      WP (forEach ((mapL L l).map fun p => Data.int p.2) fun o => evProg ev o.toInt.toNat .done) w
        (fun w' => UsersPartR L pend unst w' { s with obs := deliver .replay ev l s.obs } ∧
          Touch (JR L) NoCell w w') := by
  induction l with
  | nil => intro s w _ h; exact WP.done ⟨h, Touch.refl _ _ _⟩
  | cons p rest ih =>
    intro s w g h
    simp only [mapL, List.map_cons, forEach, toNat_int]
    apply WP.seq
    refine (deliverL1_spec g h ev p.2 (hl p (List.mem_cons_self ..))).conseq ?_
    rintro w1 ⟨h1, t1⟩
    refine (ih (fun q hq => hl q (List.mem_cons_of_mem _ hq)) _ w1 (g.touch t1) h1).conseq ?_
    rintro w2 ⟨h2, t2⟩
    exact ⟨h2, t1.trans t2⟩

def KR (i : Nat) : Prop := i = 2 ∨ i = 4 ∨ i = 5 ∨ i = 6

/-- rewriting one of the fixed cells of the ReplaySubject -/
theorem UsersPartR.setFixed {L pend unst w s} (h : UsersPartR L pend unst w s) (i : Nat) (hi : i < 10) (d : Data)
    (s' : SubjM.State) (hobs : s'.obs = s.obs)
    (h2 : (w.cells.set i d)[2]? = some (encMap (mapL L s'.observers)))
    (h3 : (w.cells.set i d)[3]? = some (.int s'.serial))
    (h4 : (w.cells.set i d)[4]? = some (Data.ofList s'.items))
    (h5 : (w.cells.set i d)[5]? = some (Data.optEnc (s'.wasError.map fun (e : Nat) => Data.int (e : Int))))
    (h6 : (w.cells.set i d)[6]? = some (.bool s'.wasCompleted))
    (hkeys : ∀ p ∈ s'.observers, p.1 ≤ s'.serial) (hreg : ∀ p ∈ s'.observers, p.2 < L.roots.length) :
    UsersPartR L pend unst { w with cells := w.cells.set i d } s' :=
  { lenF := h.lenF, lenS := h.lenS, lenA := h.lenA, unstLast := h.unstLast
    cellO := h2, cellS := h3, cellI := h4, cellE := h5, cellC := h6
    nUsers := h.nUsers
    users := fun u hu => by
      rw [hobs]
      refine (h.users u hu).frame ⟨rfl, rfl, rfl, ?_, fun hst => ?_, rfl⟩
      · exact set_get_other _ (by have := (h.sb_ge hu).1; omega)
      · exact set_get_other _ (by have := (h.ac_ge hu hst).1; omega)
    unseen := fun u hu => by rw [hobs]; exact h.unseen u hu
    quiet := h.quiet
    keys := hkeys
    regBound := hreg
    cellsNodup := h.cellsNodup
    cellsGe := fun c hc => by simpa using h.cellsGe c hc }

theorem touch_setCell {J K : Nat → Prop} (w : World) (i : Nat) (d : Data) (hK : K i) :
    Touch J K w { w with cells := w.cells.set i d } :=
  ⟨rfl, rfl, rfl, rfl, rfl, rfl, fun _ _ => rfl, by simp,
   fun j hj => set_get_other _ (fun e => hj (by rw [← e]; exact hK)), rfl⟩

/-- the source observer's callback on a replay connectable: `ReplaySubject::next / error / complete`
    (replay_subject.rs:28-39) = `SubjM.emit .replay` -/
theorem emitL_spec {L pend unst w s cobs} (hh : SlotReads w.held) (g : Glob (L.roots ++ L.fwds) cobs w)
    (h : UsersPartR L pend unst w s) (ev : Ev) :
    WP (codeBody ev fnR feR fcR) w (fun w' =>
      UsersPartR L pend unst w' (emit .replay s ev) ∧ Touch (JR L) KR w w') := by
  have widen : ∀ {w1 w2}, Touch (JR L) NoCell w1 w2 → Touch (JR L) KR w1 w2 :=
    fun t => t.mono (fun _ x => x) (fun _ x => x.elim)
  have gset : ∀ c, Glob (L.roots ++ L.fwds) cobs { w with cells := c } :=
    fun c => ⟨g.status, g.nObs, g.rootsLt, g.cobsLt, g.nodup⟩
  cases ev with
  | next v =>
    simp only [codeBody, fnR, RSubj.next, Subj.next, rR, Sp]
    refine wp_cellReadG hh ?_
    refine wp_cellWriteG hh ?_
    rw [h.cellI]
    simp only [Option.getD_some, Data.toList_ofList]
    have h1 := h.setFixed 4 (by omega) (Data.ofList (s.items ++ [v])) { s with items := s.items ++ [v] } rfl
      (by rw [set_get_other _ (by decide)]; exact h.cellO) (by rw [set_get_other _ (by decide)]; exact h.cellS)
      (set_get_same _ h.cellI) (by rw [set_get_other _ (by decide)]; exact h.cellE)
      (by rw [set_get_other _ (by decide)]; exact h.cellC) h.keys h.regBound
    refine wp_cellReadG hh ?_
    rw [show ({ w with cells := w.cells.set 4 (Data.ofList (s.items ++ [v])) } : World).cells[2]? = _ from h1.cellO]
    simp only [Option.getD_some, amapVals_encMap]
    refine (deliverL_loop (.next v) s.observers h.regBound _ _ (gset _) h1).conseq ?_
    rintro w' ⟨h', t⟩
    exact ⟨h', (touch_setCell w 4 _ (by simp [KR])).trans (widen t)⟩
  | error e =>
    simp only [codeBody, feR, RSubj.error, Subj.error, rR, Sp]
    refine wp_cellWriteG hh ?_
    refine wp_cellReadG hh ?_
    refine wp_cellWriteG hh ?_
    have h1 := h.setFixed 5 (by omega) (Data.optEnc (some (.int e))) { s with wasError := some e } rfl
      (by rw [set_get_other _ (by decide)]; exact h.cellO) (by rw [set_get_other _ (by decide)]; exact h.cellS)
      (by rw [set_get_other _ (by decide)]; exact h.cellI) (set_get_same _ h.cellE)
      (by rw [set_get_other _ (by decide)]; exact h.cellC) h.keys h.regBound
    rw [show ({ w with cells := w.cells.set 5 (Data.optEnc (some (.int e))) } : World).cells[2]? = _ from h1.cellO]
    simp only [Option.getD_some, amapVals_encMap]
    have h2 := h1.setFixed 2 (by omega) .lnil { s with wasError := some e, observers := [] } rfl
      (set_get_same _ h1.cellO) (by rw [set_get_other _ (by decide)]; exact h1.cellS)
      (by rw [set_get_other _ (by decide)]; exact h1.cellI) (by rw [set_get_other _ (by decide)]; exact h1.cellE)
      (by rw [set_get_other _ (by decide)]; exact h1.cellC) (fun p hp => by cases hp) (fun p hp => by cases hp)
    refine (deliverL_loop (.error e) s.observers h.regBound _ _ (gset _) h2).conseq ?_
    rintro w' ⟨h', t⟩
    exact ⟨h', ((touch_setCell w 5 _ (by simp [KR])).trans (touch_setCell _ 2 _ (by simp [KR]))).trans (widen t)⟩
  | complete =>
    simp only [codeBody, fcR, RSubj.complete, Subj.complete, rR, Sp]
    refine wp_cellWriteG hh ?_
    refine wp_cellReadG hh ?_
    refine wp_cellWriteG hh ?_
    have h1 := h.setFixed 6 (by omega) (.bool true) { s with wasCompleted := true } rfl
      (by rw [set_get_other _ (by decide)]; exact h.cellO) (by rw [set_get_other _ (by decide)]; exact h.cellS)
      (by rw [set_get_other _ (by decide)]; exact h.cellI) (by rw [set_get_other _ (by decide)]; exact h.cellE)
      (set_get_same _ h.cellC) h.keys h.regBound
    rw [show ({ w with cells := w.cells.set 6 (.bool true) } : World).cells[2]? = _ from h1.cellO]
    simp only [Option.getD_some, amapVals_encMap]
    have h2 := h1.setFixed 2 (by omega) .lnil { s with wasCompleted := true, observers := [] } rfl
      (set_get_same _ h1.cellO) (by rw [set_get_other _ (by decide)]; exact h1.cellS)
      (by rw [set_get_other _ (by decide)]; exact h1.cellI) (by rw [set_get_other _ (by decide)]; exact h1.cellE)
      (by rw [set_get_other _ (by decide)]; exact h1.cellC) (fun p hp => by cases hp) (fun p hp => by cases hp)
    refine (deliverL_loop .complete s.observers h.regBound _ _ (gset _) h2).conseq ?_
    rintro w' ⟨h', t⟩
    exact ⟨h', ((touch_setCell w 6 _ (by simp [KR])).trans (touch_setCell _ 2 _ (by simp [KR]))).trans (widen t)⟩

end Rx.CRef
