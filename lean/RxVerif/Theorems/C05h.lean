import RxVerif.Machine.Core
/-
C05 — handles of ONE subscription (src/subscription.rs: `Subscription` = two shared `FunctionWrapper` slots; `unsubscribe` is
call-AND-CLEAR of the shared slot, so clones, `Using` guards and repeated calls all go through one "armed" flag).
Model A: a handle is the value `pair (int observer) (int armed-cell)`; copying the value is `Clone`.
-/
namespace Rx.C05h
open Rx

/-- a handle whose shared flag is already cleared: `unsubscribe` through ANY copy of it changes nothing - for every world,
    stack and fuel (idempotence; "calling unsubscribe again has no effect") -/
theorem subUnsub_disarmed (o a : Nat) (w : World) (st : List Prog) (fuel : Nat)
    (hc : w.cells[a]? = some (.bool false)) (hh : w.held = []) :
    run (fuel + 2) (subUnsub (.pair (.int o) (.int a)) :: st) w = run fuel st w := by
  have hconf : ∀ l wr, w.conflicts l wr = false := by
    intro l wr; simp [World.conflicts, hh]
  simp only [subUnsub, run, hconf, Bool.and_false, Bool.false_eq_true, ↓reduceIte, Int.toNat_natCast, hc,
    Option.getD_some, Data.toBool]

/-- an armed handle: `unsubscribe` clears the SHARED flag first and then unsubscribes the observer - once -/
theorem subUnsub_armed (o a : Nat) (w : World) (st : List Prog) (fuel : Nat)
    (hc : w.cells[a]? = some (.bool true)) (hh : w.held = []) :
    run (fuel + 2) (subUnsub (.pair (.int o) (.int a)) :: st) w
      = run fuel (.obsUnsub o .done :: st) { w with cells := w.cells.set a (.bool false) } := by
  have hconf : ∀ l wr, w.conflicts l wr = false := by
    intro l wr; simp [World.conflicts, hh]
  simp only [subUnsub, run, hconf, Bool.and_false, Bool.false_eq_true, ↓reduceIte, Int.toNat_natCast, hc,
    Option.getD_some, Data.toBool]

/-- after the first `unsubscribe` the flag every copy shares reads `false`: the second, third, .. call is `subUnsub_disarmed` -/
theorem armed_cleared (a : Nat) (w : World) (h : a < w.cells.length) :
    ({ w with cells := w.cells.set a (.bool false) } : World).cells[a]? = some (.bool false) := by
  simp [h]

end Rx.C05h

-- non-vacuity: three copies of one handle unsubscribed in a row: the observer's teardown (a probe) runs once
open Rx in
example :
    let p : Prog := .obsNew (fun _ => .done) (fun _ => .done) .done fun o =>
      .obsSetOnUnsub o (.probe 3 (.int 1) .done) <| .cellNew (.bool true) fun a =>
      let h := Data.pair (.int o) (.int a)
      subUnsub h ;; subUnsub h ;; subUnsub h
    (run 100 [p] {}).trace = [.probe 3 (.int 1)] := by decide

#print axioms Rx.C05h.subUnsub_disarmed
#print axioms Rx.C05h.subUnsub_armed
#print axioms Rx.C05h.armed_cleared
