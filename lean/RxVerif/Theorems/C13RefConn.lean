import RxVerif.Theorems.C13RefUsers
/-
C13-REF, part 5: `source.subscribe(next → sbj.next, error → sbj.error, complete → sbj.complete)` on the hot source
(publish.rs:31-39, ref_count.rs:76-84) and `Subscription::unsubscribe` of the handle it returned.
-/
namespace Rx.CRef
open Rx.Sim Rx.SubjM Rx.Ref Rx.RefR

theorem liveFrom_keys : ∀ (k : Nat) (cs : List Nat) (bs : List Bool), ∀ p ∈ liveFrom k cs bs, k < p.1 ∧ p.1 ≤ k + bs.length
  | _, [], _, p, hp => by simp [liveFrom] at hp
  | _, _ :: _, [], p, hp => by simp [liveFrom] at hp
  | k, c :: cs, b :: bs, p, hp => by
    simp only [liveFrom, List.mem_append] at hp
    rcases hp with hp | hp
    · cases b with
      | false => simp at hp
      | true => simp at hp; subst hp; simp
    · have := liveFrom_keys (k + 1) cs bs p hp
      simp only [List.length_cons]; omega

theorem liveFrom_append (c : Nat) : ∀ (k : Nat) (cs : List Nat) (bs : List Bool), cs.length = bs.length →
    liveFrom k (cs ++ [c]) (bs ++ [true]) = liveFrom k cs bs ++ [(k + bs.length + 1, c)]
  | k, [], [], _ => by simp [liveFrom]
  | _, [], _ :: _, h => by simp at h
  | _, _ :: _, [], h => by simp at h
  | k, x :: cs, b :: bs, h => by
    simp only [List.cons_append, liveFrom, List.length_cons]
    rw [liveFrom_append c (k + 1) cs bs (by simpa using h), List.append_assoc]
    have : k + 1 + bs.length + 1 = k + (bs.length + 1) + 1 := by omega
    rw [this]

/-- the world after `source.subscribe(..)` returned the handle `(new observer, new armed flag)` -/
def connWorld (H : Subj) (fn : Data → Prog) (fe : Nat → Prog) (fc : Prog) (w : World) (hmap : List (Nat × Nat))
    (m : Nat) : World :=
  { w with
    obs := w.obs ++ [connObs H fn fe fc m true true]
    cells := (w.cells.set H.serial (.int ((m + 1 : Nat) : Int))).set H.observers
      (encMap (hmap ++ [(m + 1, w.obs.length)])) ++ [.bool true] }

theorem connect_pre {H : Subj} {hid : Nat} {fn : Data → Prog} {fe : Nat → Prog} {fc : Prog} {w : World}
    {hmap : List (Nat × Nat)} {m : Nat} {k : Data → Prog} {Q : World → Prop} (hh : SlotReads w.held)
    (hobsv : w.obsvs[hid]? = some H.observable) (hslot : w.slots[H.onSub]? = some none)
    (hne : H.observers ≠ H.serial) (hO : w.cells[H.observers]? = some (encMap hmap))
    (hS : w.cells[H.serial]? = some (.int m)) (hkeys : ∀ p ∈ hmap, p.1 ≤ m)
    (hQ : WP (k (.pair (.int (w.obs.length : Nat)) (.int (w.cells.length : Nat)))) (connWorld H fn fe fc w hmap m) Q) :
    WP (subscribeWith (fun o => .obsvSub hid o .done) fn fe fc k) w Q := by
  unfold subscribeWith
  refine wp_obsNew ?_
  refine WP.seq ?_
  simp only [Obsv.sub]
  refine wp_obsIsSub (by dsimp only; rw [get_app0]; rfl) ?_
  simp only [Obs.isSub, Option.isSome_some, Bool.and_self, ↓reduceIte]
  refine wp_obsvSub hobsv ?_
  refine observable_pre (serial := m) (obsl := hmap) hh (by dsimp only; rw [get_app0]; rfl) rfl hne hS hO hkeys ?_
  refine slotTail_none hh hslot (WP.done ?_)
  dsimp only [subWorld, World.setObs]
  rw [modify_app0]
  simp only [List.modify_cons, ↓reduceIte]
  refine wp_cellNew ?_
  dsimp only
  simp only [List.length_set]
  exact hQ

theorem connWorld_obs_lt (H fn fe fc) (w : World) (hmap m) {j : Nat} (hj : j < w.obs.length) :
    (connWorld H fn fe fc w hmap m).obs[j]? = w.obs[j]? := get_app_lt _ _ _ hj

theorem connWorld_cells (H : Subj) (fn fe fc) (w : World) (hmap m) {i : Nat} (h1 : i ≠ H.observers)
    (h2 : i ≠ H.serial) (hi : i < w.cells.length) : (connWorld H fn fe fc w hmap m).cells[i]? = w.cells[i]? := by
  show (((w.cells.set _ _).set _ _) ++ _)[i]? = _
  rw [get_app_lt _ _ _ (by simp; exact hi), set_get_other _ (Ne.symm h1), set_get_other _ (Ne.symm h2)]

theorem connWorld_cellsLen (H : Subj) (fn fe fc) (w : World) (hmap m) :
    (connWorld H fn fe fc w hmap m).cells.length = w.cells.length + 1 := by simp [connWorld]

theorem lt_of_getElem?_some {α} {l : List α} {i : Nat} {x : α} (h : l[i]? = some x) : i < l.length := by
  rcases Nat.lt_or_ge i l.length with hl | hl
  · exact hl
  · rw [List.getElem?_eq_none hl] at h; cases h

theorem connWorld_glob {H fn fe fc roots cobs w} (g : Glob roots cobs w) (hmap m) :
    Glob roots (cobs ++ [w.obs.length]) (connWorld H fn fe fc w hmap m) := by
  refine ⟨g.status, by simp [connWorld, g.nObs]; omega, ?_, ?_, ?_⟩
  · intro r hr
    have := g.rootsLt r hr
    simp only [connWorld, List.length_append, List.length_cons, List.length_nil]; omega
  · intro c hc
    simp only [connWorld, List.length_append, List.length_cons, List.length_nil]
    rcases List.mem_append.1 hc with hc | hc
    · have := g.cobsLt c hc; omega
    · simp at hc; omega
  · have hn := g.nodup
    rw [← List.append_assoc, List.nodup_append]
    refine ⟨hn, by simp, ?_⟩
    intro a ha b hb
    simp at hb; subst hb
    intro e; subst e
    rcases List.mem_append.1 ha with ha | ha
    · exact absurd (g.rootsLt _ ha) (Nat.lt_irrefl _)
    · exact absurd (g.cobsLt _ ha) (Nat.lt_irrefl _)

theorem getD_append_lt {α} (l : List α) (x d : α) {i : Nat} (h : i < l.length) : (l ++ [x]).getD i d = l.getD i d := by
  simp [List.getD_eq_getElem?_getD, List.getElem?_append_left h]

theorem getD_append_last {α} (l : List α) (x d : α) : (l ++ [x]).getD l.length d = x := by
  simp [List.getD_eq_getElem?_getD]

/-- the source side after one more `source.subscribe(..)` -/
theorem connWorld_conns {H fn fe fc acell roots cobs w conns armed}
    (h : ConnsPart H fn fe fc acell cobs w (liveFrom 0 cobs conns) conns armed) (g : Glob roots cobs w)
    (hA : ∀ i, i < conns.length → acell i ≠ H.observers ∧ acell i ≠ H.serial)
    (hnew : acell conns.length = w.cells.length) :
    ConnsPart H fn fe fc acell (cobs ++ [w.obs.length]) (connWorld H fn fe fc w (liveFrom 0 cobs conns) conns.length)
      (liveFrom 0 (cobs ++ [w.obs.length]) (conns ++ [true])) (conns ++ [true]) (armed ++ [true]) := by
  have hlenC := h.lenC
  have hlenA := h.lenA
  have hOl := lt_of_getElem?_some h.cellO
  have hSl := lt_of_getElem?_some h.cellS
  refine
    { ne := h.ne
      cellO := ?_, cellS := ?_
      lenC := by simp [hlenC]
      lenA := by simp [hlenA]
      obs := ?_, acell := ?_, liveArmed := ?_, obsv := h.obsv }
  · rw [liveFrom_append _ 0 cobs conns hlenC, Nat.zero_add]
    show (((w.cells.set _ _).set _ _) ++ _)[H.observers]? = _
    rw [get_app_lt _ _ _ (by simp; exact hOl)]
    exact set_get_same _ (by rw [set_get_other _ (Ne.symm h.ne)]; exact h.cellO)
  · show (((w.cells.set _ _).set _ _) ++ _)[H.serial]? = _
    rw [get_app_lt _ _ _ (by simp; exact hSl), set_get_other _ h.ne]
    simp only [List.length_append, List.length_cons, List.length_nil]
    exact set_get_same _ h.cellS
  · intro i hi
    simp only [List.length_append, List.length_cons, List.length_nil] at hi
    by_cases e : i = conns.length
    · subst e
      show (w.obs ++ [_])[_]? = _
      rw [← hlenC, rootAt_append_last, get_app0, hlenC, getD_append_last, ← hlenA, getD_append_last]
      rfl
    · have hlt : i < conns.length := by omega
      show (w.obs ++ [_])[_]? = _
      rw [rootAt_append_lt _ _ (hlenC ▸ hlt), get_app_lt _ _ _ (g.cobsLt _ (rootAt_mem (hlenC ▸ hlt))),
        getD_append_lt _ _ _ hlt, getD_append_lt _ _ _ (hlenA ▸ hlt)]
      exact h.obs i hlt
  · intro i hi
    simp only [List.length_append, List.length_cons, List.length_nil] at hi
    by_cases e : i = conns.length
    · subst e
      show (((w.cells.set _ _).set _ _) ++ _)[_]? = _
      rw [hnew, get_app_at _ _ _ 0 (by simp), ← hlenA, getD_append_last]; rfl
    · have hlt : i < conns.length := by omega
      rw [connWorld_cells _ _ _ _ _ _ _ (hA i hlt).1 (hA i hlt).2 (lt_of_getElem?_some (h.acell i hlt)),
        getD_append_lt _ _ _ (hlenA ▸ hlt)]
      exact h.acell i hlt
  · intro i hi
    by_cases e : i = conns.length
    · subst e; rw [← hlenA, getD_append_last]
    · rcases Nat.lt_or_ge i conns.length with hlt | hge
      · rw [getD_append_lt _ _ _ hlt] at hi
        rw [getD_append_lt _ _ _ (hlenA ▸ hlt)]
        exact h.liveArmed i hi
      · have : (conns ++ [true]).getD i false = false := by
          simp [List.getD_eq_getElem?_getD, List.getElem?_eq_none (show (conns ++ [true]).length ≤ i by simp; omega)]
        rw [this] at hi; cases hi

/-! ### `Subscription::unsubscribe` of a source subscription -/

theorem liveFrom_filter_gt (k s : Nat) (cs : List Nat) (bs : List Bool) (h : s ≤ k) :
    (liveFrom k cs bs).filter (fun p => p.1 != s) = liveFrom k cs bs := by
  rw [List.filter_eq_self]
  intro p hp
  have := (liveFrom_keys k cs bs p hp).1
  simp; omega

theorem liveFrom_filter : ∀ (k : Nat) (cs : List Nat) (bs : List Bool) (i : Nat),
    (liveFrom k cs bs).filter (fun p => p.1 != k + i + 1) = liveFrom k cs (bs.set i false)
  | _, [], bs, _ => by cases bs <;> simp [liveFrom]
  | _, _ :: _, [], _ => by simp [liveFrom]
  | k, c :: cs, b :: bs, 0 => by
    simp only [liveFrom, List.set_cons_zero, List.filter_append, Bool.false_eq_true, ↓reduceIte, List.nil_append]
    rw [liveFrom_filter_gt (k + 1) (k + 0 + 1) cs bs (by omega)]
    cases b <;> simp
  | k, c :: cs, b :: bs, i + 1 => by
    simp only [liveFrom, List.set_cons_succ, List.filter_append]
    have := liveFrom_filter (k + 1) cs bs i
    rw [show k + 1 + i + 1 = k + (i + 1) + 1 by omega] at this
    rw [this]
    cases b <;> simp

def InList (l : List Nat) (j : Nat) : Prop := j ∈ l

theorem srcUnsub_spec {H fn fe fc acell roots cobs w conns armed} {K : Nat → Prop} (hh : SlotReads w.held)
    (h : ConnsPart H fn fe fc acell cobs w (liveFrom 0 cobs conns) conns armed) (g : Glob roots cobs w)
    (hslot : w.slots[H.onUnsub]? = some none)
    (hA : ∀ i, i < conns.length → acell i ≠ H.observers ∧ acell i ≠ H.serial)
    (hAinj : ∀ i j, i < conns.length → j < conns.length → acell i = acell j → i = j)
    (hK : K H.observers ∧ ∀ i, i < conns.length → K (acell i)) {i : Nat} (hi : i < conns.length) :
    WP (subUnsub (.pair (.int (rootAt cobs i : Nat)) (.int (acell i : Nat)))) w (fun w' =>
      ConnsPart H fn fe fc acell cobs w' (liveFrom 0 cobs (conns.set i false)) (conns.set i false)
        (armed.set i false) ∧ Touch (InList cobs) K w w' ∧ w'.trace = w.trace) := by
  have hic : i < cobs.length := h.lenC ▸ hi
  have hia : i < armed.length := h.lenA ▸ hi
  simp only [subUnsub, Int.toNat_natCast]
  refine wp_cellReadG hh ?_
  rw [h.acell i hi]
  simp only [Option.getD_some, Data.toBool]
  cases har : armed.getD i false with
  | false =>
    simp only [Bool.false_eq_true, ↓reduceIte]
    refine WP.done ⟨?_, Touch.refl _ _ _, rfl⟩
    have hc : conns.getD i false = false := by
      cases hc : conns.getD i false with
      | false => rfl
      | true => have := h.liveArmed i hc; rw [har] at this; cases this
    have e1 : conns.set i false = conns := by
      apply List.ext_getElem?; intro j
      by_cases e : i = j
      · subst e; simp [List.getD_eq_getElem?_getD, hi] at hc; simp [hi, hc]
      · simp [e]
    have e2 : armed.set i false = armed := by
      apply List.ext_getElem?; intro j
      by_cases e : i = j
      · subst e; simp [List.getD_eq_getElem?_getD, hia] at har; simp [hia, har]
      · simp [e]
    rw [e1, e2]; exact h
  | true =>
    simp only [↓reduceIte]
    refine wp_cellWriteG hh ?_
    have hobs := h.obs i hi
    rw [har] at hobs
    refine wp_obsUnsub_some (f := hookProg H ((i + 1 : Nat) : Int)) (show _ = some _ from hobs) (by simp [connObs]) ?_
    refine hookProg_pre (obsl := liveFrom 0 cobs conns) hh
      (by show (w.cells.set _ _)[_]? = _; rw [set_get_other _ (hA i hi).1]; exact h.cellO) ?_
    refine slotTail_none hh hslot (WP.done ?_)
    have hf := liveFrom_filter 0 cobs conns i
    rw [Nat.zero_add] at hf
    rw [hf]
    dsimp only [World.setObs]
    refine ⟨?_, ?_, rfl⟩
    · refine
        { ne := h.ne
          cellO := set_get_same _ (by rw [set_get_other _ (hA i hi).1]; exact h.cellO)
          cellS := by
            show ((w.cells.set _ _).set _ _)[_]? = _
            rw [set_get_other _ h.ne, set_get_other _ (hA i hi).2, List.length_set]; exact h.cellS
          lenC := by rw [List.length_set]; exact h.lenC
          lenA := by rw [List.length_set, List.length_set]; exact h.lenA
          obs := ?_, acell := ?_, liveArmed := ?_, obsv := h.obsv }
      · intro j hj
        rw [List.length_set] at hj
        show (w.obs.modify _ _)[_]? = _
        by_cases e : j = i
        · subst e
          rw [modify_get_same _ _ (h.obs j hj)]
          simp [connObs, Obs.cleared, List.getD_eq_getElem?_getD, hj, hia]
        · have : rootAt cobs i ≠ rootAt cobs j := fun x => e (g.cob_inj (h.lenC ▸ hj) hic x.symm)
          rw [modify_get_other _ _ this, h.obs j hj]
          simp [List.getD_eq_getElem?_getD, Ne.symm e]
      · intro j hj
        rw [List.length_set] at hj
        show ((w.cells.set _ _).set _ _)[_]? = _
        rw [set_get_other _ (Ne.symm (hA j hj).1)]
        by_cases e : j = i
        · subst e
          rw [set_get_same _ (h.acell j hj)]
          simp [List.getD_eq_getElem?_getD, hia]
        · rw [set_get_other _ (fun x => e (hAinj _ _ hi hj x).symm), h.acell j hj]
          simp [List.getD_eq_getElem?_getD, Ne.symm e]
      · intro j hj
        by_cases e : j = i
        · subst e
          by_cases hl : j < conns.length
          · simp [List.getD_eq_getElem?_getD, hl] at hj
          · simp [List.getD_eq_getElem?_getD, hl] at hj
        · have h1 : conns.getD j false = true := by
            simpa [List.getD_eq_getElem?_getD, Ne.symm e] using hj
          have := h.liveArmed j h1
          simpa [List.getD_eq_getElem?_getD, Ne.symm e] using this
    · refine ⟨rfl, rfl, rfl, rfl, rfl, by simp, ?_, by simp, ?_, rfl⟩
      · intro j hj
        show (w.obs.modify _ _)[j]? = _
        rw [modify_get_other]
        intro e; exact hj (e ▸ rootAt_mem hic)
      · intro j hj
        show ((w.cells.set _ _).set _ _)[j]? = _
        rw [set_get_other _ (fun e => hj (by rw [← e]; exact hK.1)), set_get_other _ (fun e => hj (by rw [← e]; exact hK.2 i hi))]

/-- switching all flags off, one index after the other -/
theorem foldSet_all : ∀ (n k : Nat) (l : List Bool), k + n = l.length →
    ∀ j, ((List.range' k n).foldl (fun l i => l.set i false) l)[j]? =
      if k ≤ j then l[j]?.map (fun _ => false) else l[j]?
  | 0, k, l, h, j => by
    simp only [List.range'_zero, List.foldl_nil]
    split
    · rw [List.getElem?_eq_none (by omega)]; rfl
    · rfl
  | n + 1, k, l, h, j => by
    rw [List.range'_succ, List.foldl_cons, foldSet_all n (k + 1) _ (by simp; omega) j]
    by_cases e : k = j
    · subst e
      have hl : k < l.length := by omega
      simp [hl]
    · by_cases h2 : k + 1 ≤ j
      · have : k ≤ j := by omega
        simp [h2, this, e]
      · have : ¬ k ≤ j := by omega
        simp [h2, this, e]

theorem foldSet_all_eq (l : List Bool) :
    (List.range' 0 l.length).foldl (fun l i => l.set i false) l = l.map fun _ => false := by
  apply List.ext_getElem?
  intro j
  rw [foldSet_all l.length 0 l (by omega) j]
  simp

end Rx.CRef
