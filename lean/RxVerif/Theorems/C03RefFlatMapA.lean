import RxVerif.Theorems.C03RefGStatic
import RxVerif.Theorems.C03
/-
C03-REF, flat_map, part 1: pure facts about `Comb.flatMap` — a broadcast over all serials ever attached to a source
equals the broadcast over those that are live when it starts (model A's snapshot), and strictly sorted lists with
the same members are equal.
-/
namespace Rx.GRef.FlatMap
open Rx.Comb Rx.CRef

theorem sorted_ext : ∀ (l1 l2 : List Nat), l1.Pairwise (· < ·) → l2.Pairwise (· < ·) →
    (∀ e, e ∈ l1 ↔ e ∈ l2) → l1 = l2
  | [], [], _, _, _ => rfl
  | [], b :: l2, _, _, h => by have := (h b).2 (by simp); cases this
  | a :: l1, [], _, _, h => by have := (h a).1 (by simp); cases this
  | a :: l1, b :: l2, h1, h2, h => by
    rw [List.pairwise_cons] at h1 h2
    have hab : a = b := by
      have ha : a ∈ b :: l2 := (h a).1 (by simp)
      have hb : b ∈ a :: l1 := (h b).2 (by simp)
      rw [List.mem_cons] at ha hb
      rcases ha with q | q
      · exact q
      · rcases hb with r | r
        · exact r.symm
        · have := h1.1 b r; have := h2.1 a q; omega
    subst hab
    congr 1
    apply sorted_ext l1 l2 h1.2 h2.2
    intro e
    constructor
    · intro he
      have := (h e).1 (by simp [he])
      rw [List.mem_cons] at this
      rcases this with q | q
      · subst q; have := h1.1 e he; omega
      · exact q
    · intro he
      have := (h e).2 (by simp [he])
      rw [List.mem_cons] at this
      rcases this with q | q
      · subst q; have := h2.1 e he; omega
      · exact q

variable (inner : Data → Nat)

theorem deliver_dead' (s : flatMap.State) (e : Nat) (ev : Ev) (h : s.ctl.live.contains e = false) :
    flatMap.deliver inner s e ev = (s, []) := by
  simp only [flatMap.deliver, Ctl.isLive, h, Bool.false_eq_true, ↓reduceIte]

/-- `deliver` never lowers `nextSerial` -/
theorem deliver_next (s : flatMap.State) (e : Nat) (ev : Ev) :
    s.nextSerial ≤ (flatMap.deliver inner s e ev).1.nextSerial := by
  unfold flatMap.deliver
  split
  · split
    · cases ev <;> simp
    · cases ev <;> simp
  · exact Nat.le_refl _

theorem mem_fin {c : Ctl} {a : Nat} (h : a ∈ c.finalize.live) : a ∈ c.live := (List.mem_filter.1 h).1
theorem mem_kill {c : Ctl} {e a : Nat} (h : a ∈ (c.kill e).live) : a ∈ c.live := (List.mem_filter.1 h).1
theorem mem_sinkNext {c : Ctl} {d : Data} {a : Nat} (h : a ∈ (c.sinkNext d).1.live) : a ∈ c.live :=
  (Rx.GRef.sinkNext_sub c d).subset h
theorem mem_sinkError {c : Ctl} {x a : Nat} (h : a ∈ (c.sinkError x).1.live) : a ∈ c.live :=
  (Rx.GRef.sinkError_sub c x).subset h
theorem mem_sinkComplete {c : Ctl} {i a : Nat} (h : a ∈ (c.sinkComplete i).1.live) : a ∈ c.live :=
  (Rx.GRef.sinkComplete_sub c i).subset h

/-- `deliver` makes nobody live except the new serial -/
theorem deliver_live_sub (s : flatMap.State) (e : Nat) (ev : Ev) (a : Nat)
    (h : a ∈ (flatMap.deliver inner s e ev).1.ctl.live) : a ∈ s.ctl.live ∨ a = s.nextSerial := by
  unfold flatMap.deliver at h
  split at h
  · split at h
    · cases ev with
      | next x => simp only [Ctl.addObserver, List.mem_append, List.mem_singleton] at h; exact h
      | error x => exact .inl (mem_kill (mem_sinkError h))
      | complete => exact .inl (mem_kill (mem_sinkComplete h))
    · cases ev with
      | next x => exact .inl (mem_sinkNext h)
      | error x => exact .inl (mem_kill (mem_sinkError h))
      | complete => exact .inl (mem_kill (mem_sinkComplete h))
  · exact .inl h

theorem broadcast_cons (ev : Ev) (s : flatMap.State) (e : Nat) (l : List Nat) :
    flatMap.broadcast inner ev s (e :: l) =
      ((flatMap.broadcast inner ev (flatMap.deliver inner s e ev).1 l).1,
        (flatMap.deliver inner s e ev).2 ++ (flatMap.broadcast inner ev (flatMap.deliver inner s e ev).1 l).2) := rfl

theorem broadcast_cons_dead (ev : Ev) (s : flatMap.State) (e : Nat) (l : List Nat)
    (h : s.ctl.live.contains e = false) :
    flatMap.broadcast inner ev s (e :: l) = flatMap.broadcast inner ev s l := by
  rw [broadcast_cons, deliver_dead' inner s e ev h]; rfl

/-- entities that are not live when the broadcast starts can be left out -/
theorem broadcast_filter_gen (ev : Ev) : ∀ (l : List Nat) (s : flatMap.State) (p : Nat → Bool),
    (∀ e ∈ l, e < s.nextSerial) → (∀ e ∈ l, s.ctl.live.contains e = true → p e = true) →
    flatMap.broadcast inner ev s l = flatMap.broadcast inner ev s (l.filter p) := by
  intro l
  induction l with
  | nil => intro s p _ _; rfl
  | cons e rest ih =>
    intro s p hlt hp
    have hlt' : ∀ a ∈ rest, a < s.nextSerial := fun a ha => hlt a (by simp [ha])
    have hp' : ∀ a ∈ rest, s.ctl.live.contains a = true → p a = true := fun a ha => hp a (by simp [ha])
    cases hlv : s.ctl.live.contains e with
    | false =>
      rw [broadcast_cons_dead inner ev s e rest hlv, List.filter_cons]
      split
      · rw [broadcast_cons_dead inner ev s e _ hlv]; exact ih s p hlt' hp'
      · exact ih s p hlt' hp'
    | true =>
      have hpe : p e = true := hp e (by simp) hlv
      rw [List.filter_cons, hpe]
      simp only [↓reduceIte, broadcast_cons]
      have hstep := ih (flatMap.deliver inner s e ev).1 p
        (fun a ha => Nat.lt_of_lt_of_le (hlt' a ha) (deliver_next inner s e ev))
        (fun a ha hla => by
          rcases deliver_live_sub inner s e ev a (by simpa using hla) with q | q
          · exact hp' a ha (by simpa using q)
          · have := hlt' a ha; omega)
      rw [hstep]

theorem broadcast_filter (ev : Ev) (l : List Nat) (s : flatMap.State) (hlt : ∀ e ∈ l, e < s.nextSerial) :
    flatMap.broadcast inner ev s l = flatMap.broadcast inner ev s (l.filter s.ctl.live.contains) :=
  broadcast_filter_gen inner ev l s _ hlt fun _ _ h => h

/-! ### every live inner observer is registered; once the subscriber is gone nobody is live -/

structure CI (c : Ctl) : Prop where
  lr : ∀ e ∈ c.live, e ∈ c.reg
  al : c.alive = false → c.live = []

theorem CI.fin_nil {c : Ctl} (h : CI c) : c.finalize.live = [] := by
  simp only [Ctl.finalize, List.filter_eq_nil_iff]
  intro e he; simpa using h.lr e he

theorem CI.finalize {c : Ctl} (h : CI c) : CI c.finalize :=
  ⟨fun e he => (by rw [h.fin_nil] at he; cases he), fun _ => h.fin_nil⟩

theorem CI.kill {c : Ctl} (h : CI c) (e : Nat) : CI (c.kill e) :=
  ⟨fun a ha => h.lr a (mem_kill ha), fun q => by
    have := h.al q; simp only [Ctl.kill, this, List.filter_nil]⟩

theorem CI.sinkNext {c : Ctl} (h : CI c) (d : Data) : CI (c.sinkNext d).1 := by
  unfold Ctl.sinkNext; split
  · exact h
  · exact h.finalize

theorem CI.sinkError {c : Ctl} (h : CI c) (x : Nat) : CI (c.sinkError x).1 := by
  unfold Ctl.sinkError; split <;> exact h.finalize

theorem CI.sinkComplete {c : Ctl} (h : CI c) (i : Nat) (hi : i ∉ c.live) : CI (c.sinkComplete i).1 := by
  have h' : CI { c with reg := c.reg.filter (· != i) } :=
    ⟨fun e he => by
      simp only [List.mem_filter, bne_iff_ne]
      exact ⟨h.lr e he, fun q => hi (q ▸ he)⟩, h.al⟩
  unfold Ctl.sinkComplete; split
  · split
    · exact h'.finalize
    · exact h'
  · exact h.finalize

theorem CI.addObserver {c : Ctl} (h : CI c) (ha : c.alive = true) (e : Nat) : CI (c.addObserver e) :=
  ⟨fun a q => by
    simp only [Ctl.addObserver, List.mem_append, List.mem_singleton] at q ⊢
    rcases q with r | r
    · exact .inl (h.lr a r)
    · exact .inr r, fun q => by simp only [Ctl.addObserver] at q; rw [ha] at q; cases q⟩

end Rx.GRef.FlatMap
