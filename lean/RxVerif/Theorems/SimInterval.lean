import RxVerif.Theorems.Sim
import RxVerif.Theorems.C02a
/-
SIM for the ENDLESS polling producers (src/observables/interval.rs over the default scheduler, src/observables/repeat.rs):
`loop { if !s.is_subscribed() { break }; s.next(item) }`.

For EVERY standard operator `stdOp K` (any well-encoded kernel), subscribed in ANY ready world over such a producer with ANY
loop bound `F`: the machine run equals the machine-exact kernel run of `K` over the first `F` items of the producer and NO
terminal; once the kernel has cancelled its upstream the producer stops at its next poll, so the run does not depend on
`F` beyond the point of cancellation (`feedX` ignores everything after `cancelled`).  This is C06's "unbounded producers
(repeat, interval, endless iterators) stop" and C16's "interval emits 0,1,2,.. until unsubscribed" on model A.
-/
namespace Rx.Sim
open Rx

/-- the items an endless producer would deliver in its first `f` rounds -/
def countFrom : Nat → Nat → List Data
  | _, 0 => []
  | n, f+1 => Data.int n :: countFrom (n + 1) f

theorem countFrom_length (n f : Nat) : (countFrom n f).length = f := by
  induction f generalizing n with
  | zero => rfl
  | succ f ih => simp [countFrom, ih]

theorem countFrom_eq_range (n f : Nat) : countFrom n f = (List.range f).map fun i => Data.int ((n + i : Nat) : Int) := by
  induction f generalizing n with
  | zero => rfl
  | succ f ih =>
    rw [countFrom, ih, List.range_succ_eq_map]
    simp only [List.map_cons, List.map_map, Nat.add_zero]
    congr 1
    apply List.map_congr_left
    intro i _
    simp only [Function.comp]
    congr 2
    omega

section handlers
variable {σ : Type} {K : Kernel σ} {c : Cfg}

/-- interval's loop against the closures of `stdOp K` -/
theorem intervalLoop_spec (ok : c.Ok) (hh : Handlers K c) (hK : Kernel.WellEncoded K) :
    ∀ (f n : Nat) (st : σ) (r : KRun) (w : World), RepK c false r [] (K.enc st) w →
      WP (intervalLoop c.U n f) w
        (fun w' => ∃ cs', RepK c false (feedX K st r (countFrom n f)).2 [] cs' w') := by
  intro f
  induction f with
  | zero =>
    intro n st r w h
    simp only [intervalLoop, countFrom, feedX]
    exact WP.done ⟨_, h⟩
  | succ f ih =>
    intro n st r w h
    simp only [intervalLoop, countFrom, feedX, dAbort]
    have h0 := h
    unfold RepK at h
    apply rep_isSubU h
    cases hc : r.cancelled with
    | true =>
      simp only [Bool.true_or, Bool.not_true, Bool.false_eq_true, ↓reduceIte]
      exact WP.done ⟨_, h0⟩
    | false =>
      simp only [Bool.or_self, Bool.not_false, ↓reduceIte, Bool.false_eq_true]
      rw [hc] at h
      simp only [Bool.or_self, Bool.not_false] at h
      apply rep_nextU_live h
      apply (hn_spec ok hh hK st (Data.int n) r w h0).conseq
      intro w2 h2
      exact ih _ _ _ w2 h2

/-- repeat's loop against the closures of `stdOp K` -/
theorem repeatLoop_spec (ok : c.Ok) (hh : Handlers K c) (hK : Kernel.WellEncoded K) (d : Data) :
    ∀ (f : Nat) (st : σ) (r : KRun) (w : World), RepK c false r [] (K.enc st) w →
      WP (repeatLoop c.U d f) w
        (fun w' => ∃ cs', RepK c false (feedX K st r (List.replicate f d)).2 [] cs' w') := by
  intro f
  induction f with
  | zero =>
    intro st r w h
    simp only [repeatLoop, List.replicate, feedX]
    exact WP.done ⟨_, h⟩
  | succ f ih =>
    intro st r w h
    simp only [repeatLoop, List.replicate, feedX]
    have h0 := h
    unfold RepK at h
    apply rep_isSubU h
    cases hc : r.cancelled with
    | true =>
      simp only [Bool.true_or, Bool.not_true, Bool.false_eq_true, ↓reduceIte]
      exact WP.done ⟨_, h0⟩
    | false =>
      simp only [Bool.or_self, Bool.not_false, ↓reduceIte, Bool.false_eq_true]
      rw [hc] at h
      simp only [Bool.or_self, Bool.not_false] at h
      apply rep_nextU_live h
      apply (hn_spec ok hh hK st d r w h0).conseq
      intro w2 h2
      exact ih _ _ w2 h2

end handlers

/-! ### set-up: `subscribe` of `genOp .. (unprobed source)` up to the source's loop -/

/-- the world right after `subscribe` has reached the loop of an UNPROBED source (no subscription record) -/
def setupW0 (N : Sctl → Nat → Nat → Data → Prog) (E : Sctl → Nat → Nat → Nat → Prog)
    (C : Sctl → Nat → Nat → Prog) (init : Data) (f : Nat → Prog) (w : World) : World :=
  let c := cfgGen N E C w
  { obs := w.obs ++ [xR c true true, xU c true]
    slots := w.slots ++ [none]
    cells := w.cells ++ [.int 1, mapD c true, init]
    obsvs := w.obsvs ++ [f]
    users := w.users ++ [⟨w.obs.length, fun _ _ _ => .done, false, true⟩]
    held := []
    trace := w.trace
    status := .ok }

theorem setup_run0 (N E C init) (body : Nat → Prog) (w : World) (hs : w.status = .ok) (hh : w.held = [])
    (fuel : Nat) (st : List Prog) :
    run (fuel + 14) ((Prog.obsvNew (genOp N E C init body) fun id =>
        .userSub id (fun _ _ _ => .done) .done) :: st) w
      = run fuel (body (w.obs.length + 1) :: .userReady w.users.length .done :: st)
          (setupW0 N E C init (genOp N E C init body) w) := by
  obtain ⟨obs, slots, cells, obsvs, users, held, trace, status⟩ := w
  simp only at hs hh
  subst hs hh
  simp only [genOp, run, sctlNew, Sctl.newObserver, Obsv.sub, List.getElem?_concat_length,
    World.conflicts, List.any_nil, World.setObs, Bool.false_eq_true, ↓reduceIte, Bool.and_false,
    List.append_assoc, List.cons_append, List.nil_append, List.length_append, List.length_cons, List.length_nil,
    modify_concat_length, get3_0, get3_1, set3_0, set3_1, get2_0, get2_1, Option.getD_some, Data.toInt, Int.toNat_zero,
    Obs.isSub, Option.isSome_some, Bool.and_self, Nat.zero_add, Nat.reduceAdd]
  rfl

theorem setup_rep0 (N E C init f) (w : World) (hq : logOf w w.users.length = []) :
    Rep (cfgGen N E C w) true true true [] init [] (setupW0 N E C init f w) where
  status := rfl
  held := rfl
  obsR := ⟨true, get2_0 _ _ _⟩
  obsU := get2_1 _ _ _
  map := get3_1 _ _ _ _
  cst := get3_2 _ _ _ _
  slot := by simp [setupW0, cfgGen]
  user := ⟨⟨w.obs.length, fun _ _ _ => .done, false, true⟩, by simp [setupW0, cfgGen], rfl⟩
  log := hq
  others := fun s' _ => rfl


/-! ### the statements -/

/-- a new subscriber subscribes `stdOp K` over interval's loop (default scheduler) with loop bound `F` -/
def subscribeInterval {σ} (K : Kernel σ) (F : Nat) : Prog :=
  .obsvNew (stdOp K (fun s => intervalLoop s 0 F)) fun id => .userSub id (fun _ _ _ => .done) .done

/-- the same over `repeat(d)` -/
def subscribeRepeat {σ} (K : Kernel σ) (d : Data) (F : Nat) : Prog :=
  .obsvNew (stdOp K (fun s => repeatLoop s d F)) fun id => .userSub id (fun _ _ _ => .done) .done

theorem stdOp_sim_loopX {σ} (K : Kernel σ) (_hK : Kernel.WellEncoded K) (w : World) (hw : Ready w)
    (body : Nat → Prog) (xs : List Data)
    (hbody : ∀ (c : Cfg), c.Ok → Handlers K c → ∀ (st : σ) (r : KRun) (w : World), RepK c false r [] (K.enc st) w →
      WP (body c.U) w (fun w' => ∃ cs', RepK c false (feedX K st r xs).2 [] cs' w')) :
    ∃ N, ∀ fuel, N ≤ fuel →
      let w' := run fuel [Prog.obsvNew (stdOp K body) fun id => .userSub id (fun _ _ _ => .done) .done] w
      w'.status = .ok ∧
      logOf w' w.users.length = (runFullX K (xs, .silent)).out ∧
      (∀ s', s' ≠ w.users.length → logOf w' s' = logOf w s') ∧
      upstreamCancelled w w' = (runFullX K (xs, .silent)).cancelled ∧
      w'.held = [] := by
  let c := cfgGen (stdN K) (stdE K) (stdC K) w
  have ok : c.Ok := cfgGen_ok _ _ _ w
  have h1 : RepK c false {} [] (K.enc K.init)
      (setupW0 (stdN K) (stdE K) (stdC K) (K.enc K.init) (stdOp K body) w) :=
    setup_rep0 _ _ _ _ _ w (hw.inv.quiet _ (Nat.le_refl _))
  obtain ⟨n, w2, ⟨cs', h2⟩, hrun⟩ := hbody c ok (std_handlers K w) K.init {} _ h1
  refine ⟨n + 17, fun fuel hf => ?_⟩
  obtain ⟨k, rfl⟩ : ∃ k, fuel = k + 1 + 1 + 1 + n + 14 := ⟨fuel - (n + 17), by omega⟩
  have e : run (k + 1 + 1 + 1 + n + 14) [Prog.obsvNew (stdOp K body) fun id => .userSub id (fun _ _ _ => .done) .done] w
      = w2.setUser w.users.length fun u => { u with ready := true } := by
    show run _ ((Prog.obsvNew (genOp (stdN K) (stdE K) (stdC K) (K.enc K.init) body) _) :: _) w = _
    rw [setup_run0 _ _ _ _ _ w hw.status hw.held]
    exact (hrun (k + 1 + 1 + 1) [.userReady w.users.length .done]).trans rfl
  simp only [e]
  unfold RepK at h2
  refine ⟨h2.status, h2.log, h2.others, ?_, h2.held⟩
  have hu := h2.obsU
  show ((w2.obs[w.obs.length + 1]?).map Obs.isSub == some false) = _
  have hu' : w2.obs[w.obs.length + 1]? = some (xU c (!((runFullX K (xs, .silent)).cancelled || false))) := hu
  rw [hu']
  cases (runFullX K (xs, .silent)).cancelled <;> rfl

/-- **SIM for interval.**  For EVERY well-encoded kernel, ANY ready world and ANY loop bound `F`: the new subscriber
    sees `K.run` over the counter's first `F` values and no terminal, nobody else is disturbed, and the observer handed
    to the producer is unsubscribed iff the (machine-exact) kernel run cancelled its upstream. -/
theorem stdOp_sim_interval {σ} (K : Kernel σ) (hK : Kernel.WellEncoded K) (w : World) (hw : Ready w) (F : Nat) :
    ∃ N, ∀ fuel, N ≤ fuel →
      let w' := run fuel [subscribeInterval K F] w
      w'.status = .ok ∧
      logOf w' w.users.length = K.run (countFrom 0 F, .silent) ∧
      (∀ s', s' ≠ w.users.length → logOf w' s' = logOf w s') ∧
      upstreamCancelled w w' = (runFullX K (countFrom 0 F, .silent)).cancelled ∧
      w'.held = [] := by
  obtain ⟨N, h⟩ := stdOp_sim_loopX K hK w hw (fun s => intervalLoop s 0 F) (countFrom 0 F)
    (fun c ok hh st r w' hr => intervalLoop_spec ok hh hK F 0 st r w' hr)
  refine ⟨N, fun fuel hf => ?_⟩
  have := h fuel hf
  rw [runFullX_out] at this
  exact this

/-- **SIM for repeat.** -/
theorem stdOp_sim_repeat {σ} (K : Kernel σ) (hK : Kernel.WellEncoded K) (w : World) (hw : Ready w) (d : Data) (F : Nat) :
    ∃ N, ∀ fuel, N ≤ fuel →
      let w' := run fuel [subscribeRepeat K d F] w
      w'.status = .ok ∧
      logOf w' w.users.length = K.run (List.replicate F d, .silent) ∧
      (∀ s', s' ≠ w.users.length → logOf w' s' = logOf w s') ∧
      upstreamCancelled w w' = (runFullX K (List.replicate F d, .silent)).cancelled ∧
      w'.held = [] := by
  obtain ⟨N, h⟩ := stdOp_sim_loopX K hK w hw (fun s => repeatLoop s d F) (List.replicate F d)
    (fun c ok hh st r w' hr => repeatLoop_spec ok hh hK d F st r w' hr)
  refine ⟨N, fun fuel hf => ?_⟩
  have := h fuel hf
  rw [runFullX_out] at this
  exact this

/-- **C16 / C06 / C02 for `interval(d).take(n)` on the machine**: for every `n ≥ 1` and EVERY loop bound `F ≥ n` (the
    producer is endless: the bound does not matter) the subscriber sees exactly `0, 1, .., n-1` and `complete`, and the
    producer's observer is unsubscribed: the loop has stopped. -/
theorem take_interval (n F : Nat) (hn : 1 ≤ n) (hF : n ≤ F) (w : World) (hw : Ready w) :
    ∃ N, ∀ fuel, N ≤ fuel →
      let w' := run fuel [subscribeInterval (kTake n) F] w
      w'.status = .ok ∧
      logOf w' w.users.length = (countFrom 0 n).map .next ++ [.complete] ∧
      upstreamCancelled w w' = true := by
  obtain ⟨N, h⟩ := stdOp_sim_interval (kTake n) (we_kTake n) w hw F
  refine ⟨N, fun fuel hf => ?_⟩
  have := h fuel hf
  have hne : (countFrom 0 F, Ending.silent).1 ≠ [] := by
    intro h0
    have : (countFrom 0 F).length = 0 := by simpa using congrArg List.length h0
    rw [countFrom_length] at this; omega
  have hle : n ≤ (countFrom 0 F, Ending.silent).1.length := by simpa [countFrom_length] using hF
  refine ⟨this.1, ?_, ?_⟩
  · rw [this.2.1, Rx.C02.run_eq, Rx.C02.take_runFull_stop n _ hne hle]
    have htk : ∀ (a n F : Nat), n ≤ F → (countFrom a F).take n = countFrom a n := by
      intro a n
      induction n generalizing a with
      | zero => intros; simp [countFrom]
      | succ n ih =>
        intro F hF
        cases F with
        | zero => omega
        | succ F => simp [countFrom, ih (a + 1) F (by omega)]
    simp [htk 0 n F hF, Rx.C02.stopped]
  · have hc := cancelled_exact (kTake n) (af_kTake n) (countFrom 0 F, .silent)
    have hs : (Ending.silent != Ending.silent) = false := rfl
    simp only [hs, Bool.or_false] at hc
    rw [this.2.2.2.1, hc]
    exact Rx.C02.take_cancels n _ hne hle

/-- the same for `repeat(d).take(n)`: exactly `n` copies of `d`, `complete`, producer stopped — for every loop bound -/
theorem take_repeat (n F : Nat) (d : Data) (hn : 1 ≤ n) (hF : n ≤ F) (w : World) (hw : Ready w) :
    ∃ N, ∀ fuel, N ≤ fuel →
      let w' := run fuel [subscribeRepeat (kTake n) d F] w
      w'.status = .ok ∧
      logOf w' w.users.length = (List.replicate n d).map .next ++ [.complete] ∧
      upstreamCancelled w w' = true := by
  obtain ⟨N, h⟩ := stdOp_sim_repeat (kTake n) (we_kTake n) w hw d F
  refine ⟨N, fun fuel hf => ?_⟩
  have := h fuel hf
  have hne : (List.replicate F d, Ending.silent).1 ≠ [] := by
    intro h0
    have : (List.replicate F d).length = 0 := by simpa using congrArg List.length h0
    rw [List.length_replicate] at this; omega
  have hle : n ≤ (List.replicate F d, Ending.silent).1.length := by simpa using hF
  refine ⟨this.1, ?_, ?_⟩
  · rw [this.2.1, Rx.C02.run_eq, Rx.C02.take_runFull_stop n _ hne hle]
    simp [List.take_replicate, Nat.min_eq_left hF, Rx.C02.stopped]
  · have hc := cancelled_exact (kTake n) (af_kTake n) (List.replicate F d, .silent)
    have hs : (Ending.silent != Ending.silent) = false := rfl
    simp only [hs, Bool.or_false] at hc
    rw [this.2.2.2.1, hc]
    exact Rx.C02.take_cancels n _ hne hle

/-- C06 for `interval(d).take_while(p)`: as soon as the counter reaches a value that fails `p` (within the loop bound) the
    producer's observer is unsubscribed - for every predicate and every loop bound -/
theorem takeWhile_interval_stops (p : Pred) (F : Nat) (h : ¬ (countFrom 0 F).all p.app = true) (w : World) (hw : Ready w) :
    ∃ N, ∀ fuel, N ≤ fuel →
      upstreamCancelled w (run fuel [subscribeInterval (kTakeWhile p) F] w) = true := by
  obtain ⟨N, hs⟩ := stdOp_sim_interval (kTakeWhile p) (we_kTakeWhile p) w hw F
  refine ⟨N, fun fuel hf => ?_⟩
  have hc := cancelled_exact (kTakeWhile p) (af_kTakeWhile p) (countFrom 0 F, .silent)
  have hsil : (Ending.silent != Ending.silent) = false := rfl
  simp only [hsil, Bool.or_false] at hc
  rw [(hs fuel hf).2.2.2.1, hc]
  exact Rx.C02.takeWhile_cancels p (countFrom 0 F, .silent) h

end Rx.Sim

-- non-vacuity: interval under take 2, loop bound 5 and loop bound 50, on the machine: the same log, producer stopped
open Rx in
example : logOf (run 400 [Sim.subscribeInterval (kTake 2) 5] {}) 0 = [.next (.int 0), .next (.int 1), .complete] := by decide
open Rx in
example : Sim.upstreamCancelled {} (run 400 [Sim.subscribeInterval (kTake 2) 50] {}) = true := by decide

#print axioms Rx.Sim.stdOp_sim_interval
#print axioms Rx.Sim.stdOp_sim_repeat
#print axioms Rx.Sim.take_interval
#print axioms Rx.Sim.take_repeat
#print axioms Rx.Sim.intervalLoop_spec
#print axioms Rx.Sim.repeatLoop_spec
#print axioms Rx.Sim.takeWhile_interval_stops
