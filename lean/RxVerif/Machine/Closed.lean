import RxVerif.Machine.Inv
/-
A predicate on worlds that is closed under the handful of edits the interpreter ever performs is
preserved by every run of every program.  `Inv` (C01) is one instance; C05's "silent forever" and the
other generic theorems are further instances, without repeating the case analysis over `Prog`.
-/
namespace Rx

structure Closed (P : World → Prop) : Prop where
  status : ∀ (w : World) (st : Status), P w → P { w with status := st }
  core : ∀ (w w' : World), CoreEq w w' → P w → P w'
  setObs : ∀ (w : World) (o : Nat) (g : Obs → Obs), KeepsOrClears g → P w → P (w.setObs o g)
  pushCode : ∀ (w : World) (n : Data → Prog) (e : Nat → Prog) (c : Prog), P w →
    P { w with obs := w.obs ++ [⟨some (.code n), some (.code e), some (.code c), none⟩] }
  pushUser : ∀ (w : World) (u : User), u.obs = w.obs.length → P w →
    P { w with
      obs := w.obs ++ [⟨some (.user w.users.length), some (.user w.users.length), some (.user w.users.length), none⟩]
      users := w.users ++ [u] }
  probe : ∀ (w : World) (t : Nat) (d : Data), P w → P (w.emit (.probe t d))
  next : ∀ (w : World) (o : Nat) (x : Obs) (s : Nat) (d : Data), P w → w.obs[o]? = some x →
    x.next = some (.user s) → P (w.emit (.ev s (.next d)))
  term : ∀ (w : World) (o : Nat) (x : Obs) (s : Nat) (e : Ev), P w → w.obs[o]? = some x → x.holds s →
    e.isTerminal = true → P ((w.setObs o Obs.cleared).emit (.ev s e))

/-- every primitive step of the machine preserves a closed predicate -/
theorem run_closed {P : World → Prop} (hP : Closed P) : ∀ (n : Nat) (st : List Prog) (w : World), P w → P (run n st w) := by
  intro n
  induction n with
  | zero => intro st w h; simp only [run]; exact hP.status w _ h
  | succ n ih =>
    intro st w h
    cases st with
    | nil => simpa [run] using h
    | cons p st =>
      cases p with
      | done => simp only [run]; exact ih _ _ h
      | seq p q => simp only [run]; exact ih _ _ h
      | panic => simp only [run]; exact hP.status w _ h
      | obsNew nx e c k =>
        simp only [run]
        apply ih
        exact hP.pushCode w nx e c h
      | obsNext o d k =>
        simp only [run]
        split
        · rename_i x hx
          split
          · rename_i s hn
            have hi := hP.next w o x s d h hx hn
            split <;> exact ih _ _ hi
          · exact ih _ _ h
          · exact ih _ _ h
        · exact ih _ _ h
      | obsError o e k =>
        simp only [run]
        split
        · rename_i x hx
          split
          · exact ih _ _ h
          · have hc : P (w.setObs o Obs.cleared) :=
              hP.setObs w o Obs.cleared keepsOrClears_cleared h
            split
            · rename_i s hn
              have hi := hP.term w o x s (.error e) h hx (holds_error hn) rfl
              split <;> exact ih _ _ hi
            · exact ih _ _ hc
            · exact ih _ _ hc
        · exact ih _ _ h
      | obsComplete o k =>
        simp only [run]
        split
        · rename_i x hx
          split
          · exact ih _ _ h
          · have hc : P (w.setObs o Obs.cleared) :=
              hP.setObs w o Obs.cleared keepsOrClears_cleared h
            split
            · rename_i s hn
              have hi := hP.term w o x s .complete h hx (holds_complete hn) rfl
              split <;> exact ih _ _ hi
            · exact ih _ _ hc
            · exact ih _ _ hc
        · exact ih _ _ h
      | obsUnsub o k =>
        simp only [run]
        have hc : P (w.setObs o (fun x => { x.cleared with onUnsub := none })) :=
          hP.setObs w o _ (fun _ => Or.inr ⟨rfl, rfl, rfl⟩) h
        split
        · split <;> exact ih _ _ hc
        · exact ih _ _ h
      | obsIsSub o k =>
        simp only [run]
        split <;> exact ih _ _ h
      | obsSetOnUnsub o f k =>
        simp only [run]
        split
        · exact hP.status w _ h
        · exact ih _ _ (hP.setObs w o _ (fun _ => Or.inl ⟨rfl, rfl, rfl⟩) h)
      | slotNew k => simp only [run]; exact ih _ _ (hP.core w _ ⟨rfl, rfl, rfl⟩ h)
      | slotSet s f k =>
        simp only [run]
        split
        · exact hP.status w _ h
        · exact ih _ _ (hP.core w _ ⟨rfl, rfl, rfl⟩ h)
      | slotClear s k =>
        simp only [run]
        split
        · exact hP.status w _ h
        · exact ih _ _ (hP.core w _ ⟨rfl, rfl, rfl⟩ h)
      | slotCall s d clear k =>
        simp only [run]
        split
        · split
          · exact ih _ _ (hP.core w _ ⟨rfl, rfl, rfl⟩ h)
          · exact ih _ _ h
        · exact ih _ _ h
      | slotHas s k =>
        simp only [run]
        split <;> exact ih _ _ h
      | cellNew d k => simp only [run]; exact ih _ _ (hP.core w _ ⟨rfl, rfl, rfl⟩ h)
      | cellRead c g k =>
        simp only [run]
        split
        · exact hP.status w _ h
        · exact ih _ _ h
      | cellWrite c g d k =>
        simp only [run]
        split
        · exact hP.status w _ h
        · exact ih _ _ (hP.core w _ ⟨rfl, rfl, rfl⟩ h)
      | lockAcq l wr k =>
        simp only [run]
        split
        · exact hP.status w _ h
        · exact ih _ _ (hP.core w _ ⟨rfl, rfl, rfl⟩ h)
      | lockRel l k => simp only [run]; exact ih _ _ (hP.core w _ ⟨rfl, rfl, rfl⟩ h)
      | obsvNew f k => simp only [run]; exact ih _ _ (hP.core w _ ⟨rfl, rfl, rfl⟩ h)
      | obsvSub id o k =>
        simp only [run]
        split
        · exact ih _ _ h
        · exact hP.status w _ h
      | userSub id react k =>
        simp only [run]
        split
        · exact ih _ _ (hP.pushUser w _ rfl h)
        · exact hP.status w _ h
      | userReady s k =>
        simp only [run]
        exact ih _ _ (hP.core w _ ⟨rfl, roots_setUser w _ _ (fun _ => rfl), rfl⟩ h)
      | userUnsub s k =>
        simp only [run]
        split
        · split
          · exact ih _ _ (hP.core w _ ⟨rfl, roots_setUser w _ _ (fun _ => rfl), rfl⟩ h)
          · exact ih _ _ h
        · exact ih _ _ h
      | userIsSub s k =>
        simp only [run]
        split
        · split <;> exact ih _ _ h
        · exact ih _ _ h
      | probe tag d k =>
        simp only [run]
        exact ih _ _ (hP.probe w tag d h)


theorem inv_closed : Closed Inv where
  status := fun w st h => Inv.of_coreEq (w := w) ⟨rfl, rfl, rfl⟩ h
  core := fun _ _ c h => Inv.of_coreEq c h
  setObs := fun w o g hg h => inv_setObs w o g hg h
  pushCode := fun w n e c h => inv_push_code w n e c h
  pushUser := fun w u hu h => inv_push_user w u hu h
  probe := fun w t d h => inv_emit_probe w t d h
  next := fun w o x s d h hx hn =>
    inv_emit_next w s d h (h.live o x s hx (holds_next hn)) (h.fresh o x s hx (holds_next hn))
  term := fun w o x s e h hx hh _ => inv_emit_term w o x s e h hx hh

end Rx
