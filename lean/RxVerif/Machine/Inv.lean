import RxVerif.Machine.Prog
/-
The invariant behind C01/C05 and the lemmas that every primitive of the machine preserves it.
It speaks only about `obs`, `users.length` and `trace`, so every primitive that touches other fields
preserves it definitionally.
-/
namespace Rx

def logOf (w : World) (s : Nat) : List Ev :=
  w.trace.filterMap fun r => match r with
    | .ev s' e => if s' = s then some e else none
    | .probe _ _ => none

/-- `next*` followed by at most one terminal, nothing after it -/
def Contract : List Ev → Prop
  | [] => True
  | e :: rest => if e.isTerminal then rest = [] else Contract rest

/-- executable version, used by the oracle on observation lines -/
def contractB : List Ev → Bool
  | [] => true
  | e :: rest => if e.isTerminal then rest.isEmpty else contractB rest

theorem contractB_iff (l : List Ev) : contractB l = true ↔ Contract l := by
  induction l with
  | nil => simp [contractB, Contract]
  | cons e rest ih =>
    unfold contractB Contract
    by_cases h : e.isTerminal <;> simp [h, ih]

def terminated (l : List Ev) : Bool := l.any Ev.isTerminal

def HN.user? : Option HN → Option Nat
  | some (.user s) => some s
  | _ => none
def HE.user? : Option HE → Option Nat
  | some (.user s) => some s
  | _ => none
def HC.user? : Option HC → Option Nat
  | some (.user s) => some s
  | _ => none

/-- observer `x` still holds a callback of test subscriber `s` -/
def Obs.holds (x : Obs) (s : Nat) : Prop :=
  HN.user? x.next = some s ∨ HE.user? x.error = some s ∨ HC.user? x.complete = some s

/-- the root observer of each test subscriber, by subscriber id -/
def roots (w : World) : List Nat := w.users.map (·.obs)

/-- the three callback slots of an observer are all present or all absent -/
def Obs.allOrNone (x : Obs) : Prop :=
  (x.next.isSome = x.error.isSome) ∧ (x.error.isSome = x.complete.isSome)

/-- the slots of subscriber `s`'s root observer hold nothing but `s`'s own callbacks -/
def Obs.rootOf (x : Obs) (s : Nat) : Prop :=
  (x.next = none ∨ x.next = some (.user s)) ∧ (x.error = none ∨ x.error = some (.user s)) ∧
  (x.complete = none ∨ x.complete = some (.user s))

/-- every root index points inside `obs` -/
def RootsIn (w : World) : Prop := ∀ (s o : Nat), (roots w)[s]? = some o → o < w.obs.length

structure Inv (w : World) : Prop where
  contract : ∀ s, Contract (logOf w s)
  live : ∀ (o : Nat) (x : Obs) (s : Nat), w.obs[o]? = some x → x.holds s → terminated (logOf w s) = false
  owner : ∀ (o : Nat) (x : Obs) (s : Nat), w.obs[o]? = some x → x.holds s → (roots w)[s]? = some o
  quiet : ∀ s, w.users.length ≤ s → logOf w s = []
  shape : ∀ (o : Nat) (x : Obs), w.obs[o]? = some x → x.allOrNone
  root : ∀ (s o : Nat) (x : Obs), (roots w)[s]? = some o → w.obs[o]? = some x → x.rootOf s
  rootsIn : RootsIn w

theorem Inv.fresh {w : World} (h : Inv w) (o : Nat) (x : Obs) (s : Nat) (hx : w.obs[o]? = some x)
    (hh : x.holds s) : s < w.users.length := by
  have := h.owner o x s hx hh
  have hl : s < (roots w).length := by
    rcases Nat.lt_or_ge s (roots w).length with hlt | hge
    · exact hlt
    · rw [List.getElem?_eq_none hge] at this; exact absurd this (by simp)
  simpa [roots] using hl

theorem Inv.uniq {w : World} (h : Inv w) (o o' : Nat) (x x' : Obs) (s : Nat) (hx : w.obs[o]? = some x)
    (hx' : w.obs[o']? = some x') (hh : x.holds s) (hh' : x'.holds s) : o = o' := by
  have a := h.owner o x s hx hh
  have b := h.owner o' x' s hx' hh'
  rw [a] at b; exact Option.some.inj b

theorem roots_setUser (w : World) (s : Nat) (f : User → User) (hf : ∀ u, (f u).obs = u.obs) :
    roots (w.setUser s f) = roots w := by
  apply List.ext_getElem?
  intro i
  simp only [roots, World.setUser, List.getElem?_map, List.getElem?_modify]
  cases h : w.users[i]? with
  | none => simp
  | some u => by_cases e : s = i <;> simp [e, hf]

/-- two worlds that agree on what `Inv` looks at -/
structure CoreEq (w w' : World) : Prop where
  obs : w'.obs = w.obs
  users : roots w' = roots w
  trace : w'.trace = w.trace

theorem CoreEq.len {w w' : World} (c : CoreEq w w') : w'.users.length = w.users.length := by
  have := congrArg List.length c.users
  simpa [roots] using this

theorem Inv.of_coreEq {w w' : World} (c : CoreEq w w') (h : Inv w) : Inv w' := by
  have hl : ∀ s, logOf w' s = logOf w s := fun s => by simp [logOf, c.trace]
  constructor
  · intro s; rw [hl]; exact h.contract s
  · intro o x s hx hh; rw [hl]; rw [c.obs] at hx; exact h.live o x s hx hh
  · intro o x s hx hh; rw [c.obs] at hx; rw [c.users]; exact h.owner o x s hx hh
  · intro s hs; rw [hl]; rw [c.len] at hs; exact h.quiet s hs
  · intro o x hx; rw [c.obs] at hx; exact h.shape o x hx
  · intro s o x hr hx; rw [c.users] at hr; rw [c.obs] at hx; exact h.root s o x hr hx
  · intro s o hr; rw [c.users] at hr; rw [c.obs]; exact h.rootsIn s o hr

theorem contract_append (l : List Ev) (e : Ev) (h : Contract l) (ht : terminated l = false) :
    Contract (l ++ [e]) := by
  induction l with
  | nil => simp [Contract]
  | cons a rest ih =>
    simp [terminated] at ht
    have ha : a.isTerminal = false := ht.1
    simp [Contract, ha] at h ⊢
    apply ih h
    simp [terminated]; exact ht.2

theorem logOf_emit_same (w : World) (s : Nat) (e : Ev) :
    logOf (w.emit (.ev s e)) s = logOf w s ++ [e] := by
  simp [logOf, World.emit, List.filterMap_append]

theorem logOf_emit_other (w : World) (s s' : Nat) (e : Ev) (h : s ≠ s') :
    logOf (w.emit (.ev s e)) s' = logOf w s' := by
  simp [logOf, World.emit, List.filterMap_append, h]

theorem logOf_emit_probe (w : World) (t : Nat) (d : Data) (s : Nat) :
    logOf (w.emit (.probe t d)) s = logOf w s := by
  simp [logOf, World.emit, List.filterMap_append]

theorem terminated_append (l : List Ev) (e : Ev) : terminated (l ++ [e]) = (terminated l || e.isTerminal) := by
  simp [terminated]

@[simp] theorem logOf_setObs (w : World) (o : Nat) (f : Obs → Obs) (s : Nat) :
    logOf (w.setObs o f) s = logOf w s := rfl

theorem getElem?_setObs (w : World) (o o' : Nat) (f : Obs → Obs) :
    (w.setObs o f).obs[o']? = if o = o' then (w.obs[o']?).map f else w.obs[o']? := by
  simp [World.setObs, List.getElem?_modify]
  split <;> simp_all

theorem not_holds_cleared (x : Obs) (s : Nat) : ¬ (x.cleared).holds s := by
  simp [Obs.holds, Obs.cleared, HN.user?, HE.user?, HC.user?]

/-- what the machine ever does to an existing observer: keep its callbacks or clear all three -/
def KeepsOrClears (g : Obs → Obs) : Prop :=
  ∀ x, ((g x).next = x.next ∧ (g x).error = x.error ∧ (g x).complete = x.complete) ∨
       ((g x).next = none ∧ (g x).error = none ∧ (g x).complete = none)

theorem keepsOrClears_cleared : KeepsOrClears Obs.cleared := fun _ => Or.inr ⟨rfl, rfl, rfl⟩

theorem KeepsOrClears.holds {g : Obs → Obs} (hg : KeepsOrClears g) (x : Obs) (s : Nat)
    (h : (g x).holds s) : x.holds s := by
  rcases hg x with ⟨a, b, c⟩ | ⟨a, b, c⟩
  · simpa [Obs.holds, a, b, c] using h
  · simp [Obs.holds, a, b, c, HN.user?, HE.user?, HC.user?] at h

/-- rewriting one observer by such a function preserves the invariant -/
theorem inv_setObs (w : World) (o : Nat) (g : Obs → Obs) (hg : KeepsOrClears g) (h : Inv w) :
    Inv (w.setObs o g) := by
  have key : ∀ (o' : Nat) (x : Obs), (w.setObs o g).obs[o']? = some x →
      ∃ y, w.obs[o']? = some y ∧ (x = y ∨ x = g y) := by
    intro o' x hx
    rw [getElem?_setObs] at hx
    split at hx
    · cases hy : w.obs[o']? with
      | none => simp [hy] at hx
      | some y => simp [hy] at hx; exact ⟨y, rfl, Or.inr hx.symm⟩
    · exact ⟨x, hx, Or.inl rfl⟩
  have keyh : ∀ (o' : Nat) (x : Obs) (s : Nat), (w.setObs o g).obs[o']? = some x →
      x.holds s → ∃ y, w.obs[o']? = some y ∧ y.holds s := by
    intro o' x s hx hs
    obtain ⟨y, e, hxy⟩ := key o' x hx
    rcases hxy with rfl | rfl
    · exact ⟨_, e, hs⟩
    · exact ⟨y, e, hg.holds y s hs⟩
  have hr : roots (w.setObs o g) = roots w := rfl
  constructor
  · intro s; simpa using h.contract s
  · intro o' x s hx hs
    obtain ⟨y, e, k⟩ := keyh o' x s hx hs
    simpa using h.live o' y s e k
  · intro o' x s hx hs
    obtain ⟨y, e, k⟩ := keyh o' x s hx hs
    rw [hr]; exact h.owner o' y s e k
  · intro s hs; simpa using h.quiet s hs
  · intro o' x hx
    obtain ⟨y, e, hxy⟩ := key o' x hx
    have hy := h.shape o' y e
    rcases hxy with rfl | rfl
    · exact hy
    · rcases hg y with ⟨a, b, c⟩ | ⟨a, b, c⟩
      · simpa [Obs.allOrNone, a, b, c] using hy
      · simp [Obs.allOrNone, a, b, c]
  · intro s o' x hro hx
    rw [hr] at hro
    obtain ⟨y, e, hxy⟩ := key o' x hx
    have hy := h.root s o' y hro e
    rcases hxy with rfl | rfl
    · exact hy
    · rcases hg y with ⟨a, b, c⟩ | ⟨a, b, c⟩
      · simpa [Obs.rootOf, a, b, c] using hy
      · simp [Obs.rootOf, a, b, c]
  · intro s o' hro
    rw [hr] at hro
    have := h.rootsIn s o' hro
    simpa [World.setObs] using this

/-- appending a record to the trace: everything but the logs is untouched -/
theorem inv_emit (w : World) (r : Rec) (h : Inv w)
    (hc : ∀ s, Contract (logOf (w.emit r) s))
    (hl : ∀ (o : Nat) (x : Obs) (s : Nat), w.obs[o]? = some x → x.holds s → terminated (logOf (w.emit r) s) = false)
    (hq : ∀ s, w.users.length ≤ s → logOf (w.emit r) s = []) : Inv (w.emit r) :=
  ⟨hc, hl, h.owner, hq, h.shape, h.root, h.rootsIn⟩

theorem inv_emit_probe (w : World) (t : Nat) (d : Data) (h : Inv w) : Inv (w.emit (.probe t d)) :=
  inv_emit w _ h (fun s => by rw [logOf_emit_probe]; exact h.contract s)
    (fun o x s hx hh => by rw [logOf_emit_probe]; exact h.live o x s hx hh)
    (fun s hs => by rw [logOf_emit_probe]; exact h.quiet s hs)

/-- a `next` delivered to subscriber `s` that still holds a callback -/
theorem inv_emit_next (w : World) (s : Nat) (d : Data) (h : Inv w)
    (hl : terminated (logOf w s) = false) (hs : s < w.users.length) :
    Inv (w.emit (.ev s (.next d))) := by
  refine inv_emit w _ h ?_ ?_ ?_
  · intro s'
    by_cases e : s = s'
    · subst e; rw [logOf_emit_same]; exact contract_append _ _ (h.contract s) hl
    · rw [logOf_emit_other _ _ _ _ e]; exact h.contract s'
  · intro o x s' hx hh
    by_cases e : s = s'
    · subst e; rw [logOf_emit_same, terminated_append]; simp [Ev.isTerminal]
      exact h.live o x s hx hh
    · rw [logOf_emit_other _ _ _ _ e]; exact h.live o x s' hx hh
  · intro s' hs'
    have : s ≠ s' := by
      intro e; subst e
      exact absurd hs (Nat.not_lt.mpr hs')
    rw [logOf_emit_other _ _ _ _ this]; exact h.quiet s' hs'

/-- a terminal delivered to subscriber `s` through observer `o`, which is cleared at the same time -/
theorem inv_emit_term (w : World) (o : Nat) (x : Obs) (s : Nat) (e : Ev) (h : Inv w)
    (hx : w.obs[o]? = some x) (hh : x.holds s) :
    Inv ((w.setObs o Obs.cleared).emit (.ev s e)) := by
  have hl := h.live o x s hx hh
  have hf := h.fresh o x s hx hh
  have hc : Inv (w.setObs o Obs.cleared) := inv_setObs w o Obs.cleared keepsOrClears_cleared h
  refine inv_emit _ _ hc ?_ ?_ ?_
  · intro s'
    by_cases e' : s = s'
    · subst e'; rw [logOf_emit_same]; exact contract_append _ _ (hc.contract s) hl
    · rw [logOf_emit_other _ _ _ _ e']; exact hc.contract s'
  · intro o' x' s' hx' hh'
    by_cases e' : s = s'
    · subst e'
      have hx'' := hx'
      rw [getElem?_setObs] at hx''
      split at hx''
      · rename_i heq; subst heq
        simp [hx] at hx''; subst hx''
        exact absurd hh' (not_holds_cleared x s)
      · rename_i hne
        exact absurd (h.uniq o o' x x' s hx hx'' hh hh') hne
    · rw [logOf_emit_other _ _ _ _ e']
      exact hc.live o' x' s' hx' hh'
  · intro s' hs'
    have : s ≠ s' := by
      intro e'; subst e'
      exact absurd hf (Nat.not_lt.mpr hs')
    rw [logOf_emit_other _ _ _ _ this]; exact hc.quiet s' hs'

theorem holds_next {x : Obs} {s} (h : x.next = some (.user s)) : x.holds s := by
  simp [Obs.holds, h, HN.user?]
theorem holds_error {x : Obs} {s} (h : x.error = some (.user s)) : x.holds s := by
  simp [Obs.holds, h, HE.user?]
theorem holds_complete {x : Obs} {s} (h : x.complete = some (.user s)) : x.holds s := by
  simp [Obs.holds, h, HC.user?]

theorem singleton_get {α} {a x : α} {i : Nat} (h : [a][i]? = some x) : x = a := by
  cases i <;> simp_all

theorem getElem?_append_singleton {α} (l : List α) (y x : α) (o : Nat) (h : (l ++ [y])[o]? = some x) :
    l[o]? = some x ∨ (o = l.length ∧ x = y) := by
  simp [List.getElem?_append] at h
  split at h
  · exact Or.inl h
  · rename_i hlt
    have hxe := singleton_get h
    refine Or.inr ⟨?_, hxe⟩
    have : o - l.length = 0 := by
      cases hk : o - l.length with
      | zero => rfl
      | succ k => simp [hk] at h
    omega

/-- appending an observer that holds code callbacks only (created by `obsNew`) -/
theorem inv_push_code (w : World) (n : Data → Prog) (e : Nat → Prog) (c : Prog) (h : Inv w) :
    Inv { w with obs := w.obs ++ [⟨some (.code n), some (.code e), some (.code c), none⟩] } := by
  have hy : ∀ s, ¬ (⟨some (.code n), some (.code e), some (.code c), none⟩ : Obs).holds s := by
    intro s; simp [Obs.holds, HN.user?, HE.user?, HC.user?]
  have key : ∀ (o : Nat) (x : Obs) (s : Nat),
      (w.obs ++ [(⟨some (.code n), some (.code e), some (.code c), none⟩ : Obs)])[o]? = some x → x.holds s →
      w.obs[o]? = some x := by
    intro o x s hx hh
    rcases getElem?_append_singleton _ _ _ _ hx with h1 | ⟨_, h2⟩
    · exact h1
    · subst h2; exact absurd hh (hy s)
  constructor
  · exact h.contract
  · intro o x s hx hh; exact h.live o x s (key o x s hx hh) hh
  · intro o x s hx hh; exact h.owner o x s (key o x s hx hh) hh
  · exact h.quiet
  · intro o x hx
    rcases getElem?_append_singleton _ _ _ _ hx with h1 | ⟨_, h2⟩
    · exact h.shape o x h1
    · subst h2; simp [Obs.allOrNone]
  · intro s o x hro hx
    have hro' : (roots w)[s]? = some o := hro
    rcases getElem?_append_singleton _ _ _ _ hx with h1 | ⟨h2, _⟩
    · exact h.root s o x hro' h1
    · have := h.rootsIn s o hro'; omega
  · intro s o hro
    have hro' : (roots w)[s]? = some o := hro
    have := h.rootsIn s o hro'
    simp only [List.length_append, List.length_singleton]; omega

/-- `userSub`: a fresh subscriber id, a fresh observer holding its three callbacks -/
theorem inv_push_user (w : World) (u : User) (hu : u.obs = w.obs.length) (h : Inv w) :
    Inv { w with
      obs := w.obs ++ [⟨some (.user w.users.length), some (.user w.users.length), some (.user w.users.length), none⟩]
      users := w.users ++ [u] } := by
  let s0 := w.users.length
  have hroots : roots { w with
      obs := w.obs ++ [⟨some (.user s0), some (.user s0), some (.user s0), none⟩]
      users := w.users ++ [u] } = roots w ++ [w.obs.length] := by simp [roots, hu]
  have hrl : (roots w).length = s0 := by simp [roots, s0]
  have hnew : ∀ s, (⟨some (.user s0), some (.user s0), some (.user s0), none⟩ : Obs).holds s → s = s0 := by
    intro s hs
    simp [Obs.holds, HN.user?, HE.user?, HC.user?] at hs
    omega
  constructor
  · exact h.contract
  · intro o x s hx hh
    rcases getElem?_append_singleton _ _ _ _ hx with h1 | ⟨_, h2⟩
    · exact h.live o x s h1 hh
    · subst h2
      have := hnew s hh; subst this
      show terminated (logOf w s0) = false
      rw [h.quiet s0 (Nat.le_refl _)]; rfl
  · intro o x s hx hh
    rw [hroots]
    rcases getElem?_append_singleton _ _ _ _ hx with h1 | ⟨h2, h3⟩
    · have := h.owner o x s h1 hh
      have hs : s < (roots w).length := by
        rcases Nat.lt_or_ge s (roots w).length with hlt | hge
        · exact hlt
        · rw [List.getElem?_eq_none hge] at this; exact absurd this (by simp)
      rw [List.getElem?_append_left hs]; exact this
    · subst h3
      have := hnew s hh; subst this
      rw [h2]
      simp [List.getElem?_append, hrl, s0]
  · intro s hs
    simp only [List.length_append, List.length_singleton] at hs
    exact h.quiet s (by omega)
  · intro o x hx
    rcases getElem?_append_singleton _ _ _ _ hx with h1 | ⟨_, h2⟩
    · exact h.shape o x h1
    · subst h2; simp [Obs.allOrNone]
  · intro s o x hro hx
    rw [hroots] at hro
    rcases getElem?_append_singleton _ _ _ _ hro with r1 | ⟨r2, r3⟩
    · rcases getElem?_append_singleton _ _ _ _ hx with h1 | ⟨h2, _⟩
      · exact h.root s o x r1 h1
      · have := h.rootsIn s o r1; omega
    · rcases getElem?_append_singleton _ _ _ _ hx with h1 | ⟨_, h3⟩
      · have : o < w.obs.length := by
          rcases Nat.lt_or_ge o w.obs.length with hlt | hge
          · exact hlt
          · rw [List.getElem?_eq_none hge] at h1; exact absurd h1 (by simp)
        omega
      · subst h3
        rw [hrl] at r2; subst r2
        simp [Obs.rootOf, s0]
  · intro s o hro
    rw [hroots] at hro
    simp only [List.length_append, List.length_singleton]
    rcases getElem?_append_singleton _ _ _ _ hro with r1 | ⟨_, r3⟩
    · have := h.rootsIn s o r1; omega
    · omega

end Rx
