import RxVerif.Data
/-
Model A: the object machine.

`Prog` is the client language: a free monad (CPS, HOAS binders) over the public methods of the crate's
core objects.  Everything else in the crate (operators, creation functions, subjects, connectables) is
written as `Prog` values in `Machine/Lib*.lean`, transliterated closure by closure.

Primitive objects
  * Observer       (`src/observer.rs`): three callback slots + one teardown slot.  User callbacks
                   (`HN.user s` …) can be created only by `userSub`; firing one appends to the trace.
  * closure slot   (`FunctionWrapper` / `Option<FunctionWrapper>` fields such as
                   `StreamController.on_finalize`, `Subject.on_subscribe`)
  * data cell      (`Arc<RwLock<T>>` operator state); `guarded = true` marks an access made through
                   a guard that is already held (no new acquisition)
  * lock scopes    (`lockAcq`/`lockRel`): guards that live across a call into other objects.
                   A same-thread conflicting acquisition sets `status := deadlock` — that is how
                   std's `RwLock` behaves (C07).
  * observable     a stored `ObsId → Prog` (the `source` closure of `Observable::create`)
  * user           a test subscriber: root observer + `Subscription` handle + reaction closure
-/
namespace Rx

inductive LockId where
  | cell (c : Nat)
  | slot (s : Nat)
  | obs (o : Nat)        -- the teardown slot of an observer
deriving Repr, DecidableEq, Inhabited

inductive Prog where
  | done
  | seq (p q : Prog)
  | panic
  -- Observer
  | obsNew (n : Data → Prog) (e : Nat → Prog) (c : Prog) (k : Nat → Prog)
  | obsNext (o : Nat) (d : Data) (k : Prog)
  | obsError (o : Nat) (e : Nat) (k : Prog)
  | obsComplete (o : Nat) (k : Prog)
  | obsUnsub (o : Nat) (k : Prog)
  | obsIsSub (o : Nat) (k : Bool → Prog)
  | obsSetOnUnsub (o : Nat) (f : Prog) (k : Prog)
  -- closure slots
  | slotNew (k : Nat → Prog)
  | slotSet (s : Nat) (f : Data → Prog) (k : Prog)
  | slotClear (s : Nat) (k : Prog)
  | slotCall (s : Nat) (d : Data) (clear : Bool) (k : Prog)
  | slotHas (s : Nat) (k : Bool → Prog)
  -- data cells
  | cellNew (d : Data) (k : Nat → Prog)
  | cellRead (c : Nat) (guarded : Bool) (k : Data → Prog)
  | cellWrite (c : Nat) (guarded : Bool) (d : Data) (k : Prog)
  -- guards held across calls
  | lockAcq (l : LockId) (w : Bool) (k : Prog)
  | lockRel (l : LockId) (k : Prog)
  -- observables as values
  | obsvNew (f : Nat → Prog) (k : Nat → Prog)
  | obsvSub (id : Nat) (o : Nat) (k : Prog)
  -- test subscribers
  | userSub (id : Nat) (react : Nat → Nat → Ev → Prog) (k : Prog)
  | userReady (s : Nat) (k : Prog)   -- `subscribe` has returned to the test: its handle exists now
  | userUnsub (s : Nat) (k : Prog)
  | userIsSub (s : Nat) (k : Bool → Prog)
  -- source-side instrumentation
  | probe (tag : Nat) (d : Data) (k : Prog)
deriving Inhabited

inductive HN where | user (s : Nat) | code (f : Data → Prog)
inductive HE where | user (s : Nat) | code (f : Nat → Prog)
inductive HC where | user (s : Nat) | code (f : Prog)

structure Obs where
  next : Option HN
  error : Option HE
  complete : Option HC
  onUnsub : Option Prog

def Obs.cleared (x : Obs) : Obs := { x with next := none, error := none, complete := none }
def Obs.isSub (x : Obs) : Bool := x.next.isSome && x.error.isSome && x.complete.isSome

structure User where
  obs : Nat
  react : Nat → Nat → Ev → Prog     -- own id, index of the event among this user's events, event
  ready : Bool                       -- `subscribe` has returned: the Subscription handle exists
  armed : Bool                       -- Subscription.fn_unsubscribe still present (call-and-clear)

inductive Rec where
  | ev (s : Nat) (e : Ev)
  | probe (tag : Nat) (d : Data)
deriving Repr, DecidableEq, Inhabited

inductive Status where
  | ok | outOfFuel | deadlock (l : LockId) | panic
deriving Repr, DecidableEq, Inhabited

structure World where
  obs : List Obs := []
  slots : List (Option (Data → Prog)) := []
  cells : List Data := []
  obsvs : List (Nat → Prog) := []
  users : List User := []
  held : List (LockId × Bool) := []
  trace : List Rec := []
  status : Status := .ok

namespace World

def setObs (w : World) (o : Nat) (f : Obs → Obs) : World := { w with obs := w.obs.modify o f }
def setUser (w : World) (s : Nat) (f : User → User) : World := { w with users := w.users.modify s f }
def emit (w : World) (r : Rec) : World := { w with trace := w.trace ++ [r] }

def evCount (w : World) (s : Nat) : Nat :=
  (w.trace.filter fun r => match r with | .ev s' _ => s' == s | _ => false).length

/-- std `RwLock` on one thread: a write conflicts with anything held, a read with a held write. -/
def conflicts (w : World) (l : LockId) (wr : Bool) : Bool :=
  w.held.any fun (l', w') => l' == l && (wr || w')

def release (w : World) (l : LockId) : World :=
  { w with held := w.held.eraseP fun (l', _) => l' == l }

end World

/--
The interpreter: a stack of continuations, one primitive per unit of fuel.  Total and executable.
Calling a stored closure pushes its body; `done` pops.  A non-`ok` status stops the run.
-/
def run : Nat → List Prog → World → World
  | 0, _, w => { w with status := .outOfFuel }
  | _+1, [], w => w
  | n+1, p :: st, w =>
    match p with
    | .done => run n st w
    | .seq p q => run n (p :: q :: st) w
    | .panic => { w with status := .panic }
    | .obsNew nx e c k =>
      run n (k w.obs.length :: st)
        { w with obs := w.obs ++ [⟨some (.code nx), some (.code e), some (.code c), none⟩] }
    | .obsNext o d k =>
      match w.obs[o]? with
      | some x =>
        match x.next with
        | some (.user s) =>
          match w.users[s]? with
          | some u => run n (u.react s (w.evCount s) (.next d) :: k :: st) (w.emit (.ev s (.next d)))
          | none => run n (k :: st) (w.emit (.ev s (.next d)))
        | some (.code f) => run n (f d :: k :: st) w
        | none => run n (k :: st) w
      | none => run n (k :: st) w
    | .obsError o e k =>
      match w.obs[o]? with
      | some x =>
        -- a terminal is delivered only while `fn_next` is still there; it claims that slot,
        -- clears the other terminal, then takes and calls its own callback
        match x.next with
        | none => run n (k :: st) w
        | some _ =>
          let w' := w.setObs o Obs.cleared
          match x.error with
          | some (.user s) =>
            match w.users[s]? with
            | some u => run n (u.react s (w.evCount s) (.error e) :: k :: st) (w'.emit (.ev s (.error e)))
            | none => run n (k :: st) (w'.emit (.ev s (.error e)))
          | some (.code f) => run n (f e :: k :: st) w'
          | none => run n (k :: st) w'
      | none => run n (k :: st) w
    | .obsComplete o k =>
      match w.obs[o]? with
      | some x =>
        match x.next with
        | none => run n (k :: st) w
        | some _ =>
          let w' := w.setObs o Obs.cleared
          match x.complete with
          | some (.user s) =>
            match w.users[s]? with
            | some u => run n (u.react s (w.evCount s) .complete :: k :: st) (w'.emit (.ev s .complete))
            | none => run n (k :: st) (w'.emit (.ev s .complete))
          | some (.code f) => run n (f :: k :: st) w'
          | none => run n (k :: st) w'
      | none => run n (k :: st) w
    | .obsUnsub o k =>
      match w.obs[o]? with
      | some x =>
        -- clear the three callbacks, take the teardown out of its slot, then call it
        let w' := w.setObs o fun x => { x.cleared with onUnsub := none }
        match x.onUnsub with
        | some f => run n (f :: k :: st) w'
        | none => run n (k :: st) w'
      | none => run n (k :: st) w
    | .obsIsSub o k =>
      match w.obs[o]? with
      | some x => run n (k x.isSub :: st) w
      | none => run n (k false :: st) w
    | .obsSetOnUnsub o f k =>
      if w.conflicts (.obs o) true then { w with status := .deadlock (.obs o) }
      else run n (k :: st) (w.setObs o fun x => { x with onUnsub := some f })
    | .slotNew k => run n (k w.slots.length :: st) { w with slots := w.slots ++ [none] }
    | .slotSet s f k =>
      if w.conflicts (.slot s) true then { w with status := .deadlock (.slot s) }
      else run n (k :: st) { w with slots := w.slots.set s (some f) }
    | .slotClear s k =>
      if w.conflicts (.slot s) true then { w with status := .deadlock (.slot s) }
      else run n (k :: st) { w with slots := w.slots.set s none }
    | .slotCall s d clear k =>
      match w.slots[s]? with
      | some (some f) =>
        run n (f d :: k :: st) (if clear then { w with slots := w.slots.set s none } else w)
      | _ => run n (k :: st) w
    | .slotHas s k =>
      match w.slots[s]? with
      | some (some _) => run n (k true :: st) w
      | _ => run n (k false :: st) w
    | .cellNew d k => run n (k w.cells.length :: st) { w with cells := w.cells ++ [d] }
    | .cellRead c g k =>
      if !g && w.conflicts (.cell c) false then { w with status := .deadlock (.cell c) }
      else run n (k (w.cells[c]?.getD .unit) :: st) w
    | .cellWrite c g d k =>
      if !g && w.conflicts (.cell c) true then { w with status := .deadlock (.cell c) }
      else run n (k :: st) { w with cells := w.cells.set c d }
    | .lockAcq l wr k =>
      if w.conflicts l wr then { w with status := .deadlock l }
      else run n (k :: st) { w with held := (l, wr) :: w.held }
    | .lockRel l k => run n (k :: st) (w.release l)
    | .obsvNew f k => run n (k w.obsvs.length :: st) { w with obsvs := w.obsvs ++ [f] }
    | .obsvSub id o k =>
      match w.obsvs[id]? with
      | some f => run n (f o :: k :: st) w
      | none => { w with status := .panic }
    | .userSub id react k =>
      match w.obsvs[id]? with
      | some f =>
        let s := w.users.length
        let o := w.obs.length
        let w' := { w with
          obs := w.obs ++ [⟨some (.user s), some (.user s), some (.user s), none⟩]
          users := w.users ++ [⟨o, react, false, true⟩] }
        -- `inner_subscribe`: call the source, then hand the Subscription back to the caller
        run n (f o :: .userReady s k :: st) w'
      | none => { w with status := .panic }
    | .userReady s k => run n (k :: st) (w.setUser s fun u => { u with ready := true })
    | .userUnsub s k =>
      match w.users[s]? with
      | some u =>
        if u.ready && u.armed then
          run n (.obsUnsub u.obs k :: st) (w.setUser s fun u => { u with armed := false })
        else run n (k :: st) w
      | none => run n (k :: st) w
    | .userIsSub s k =>
      match w.users[s]? with
      | some u =>
        match w.obs[u.obs]? with
        | some x => run n (k x.isSub :: st) w
        | none => run n (k false :: st) w
      | none => run n (k false :: st) w
    | .probe tag d k => run n (k :: st) (w.emit (.probe tag d))

end Rx
