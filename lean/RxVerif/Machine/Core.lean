import RxVerif.Machine.Prog
/-
The crate's private core on top of the primitive objects, transliterated method by method:
`StreamController` (src/internals/stream_controller.rs), `Subscription` (src/subscription.rs),
`Observable::{subscribe, inner_subscribe}` (src/observable.rs), `Subject` (src/subjects/subject.rs).
-/
namespace Rx

infixr:60 " ;; " => Prog.seq

abbrev Obsv := Nat → Prog

/-- `Observable::inner_subscribe`: the source closure runs only for an observer that is still subscribed -/
def Obsv.sub (src : Obsv) (o : Nat) : Prog := .obsIsSub o fun b => if b then src o else .done

/-! ### association lists stored in cells (insertion ordered, like the facade's HashMap) -/

def amapInsert (m : Data) (key : Int) (v : Data) : Data :=
  let l := m.toList
  if l.any (fun p => match p with | .pair (.int k) _ => k == key | _ => false) then
    Data.ofList (l.map fun p => match p with
      | .pair (.int k) x => if k == key then .pair (.int k) v else .pair (.int k) x
      | x => x)
  else Data.ofList (l ++ [.pair (.int key) v])

def amapRemove (m : Data) (key : Int) : Data :=
  Data.ofList (m.toList.filter fun p => match p with | .pair (.int k) _ => k != key | _ => true)

def amapGet (m : Data) (key : Int) : Option Data :=
  (m.toList.find? fun p => match p with | .pair (.int k) _ => k == key | _ => false).map fun p =>
    match p with | .pair _ v => v | x => x

def amapVals (m : Data) : List Data :=
  m.toList.map fun p => match p with | .pair _ v => v | x => x

def amapLen (m : Data) : Nat := m.toList.length

/-! ### sequencing helpers -/

def forEach {α} (xs : List α) (f : α → Prog) : Prog :=
  match xs with
  | [] => .done
  | x :: xs => f x ;; forEach xs f

def cellsNew (ds : List Data) (k : List Nat → Prog) : Prog :=
  match ds with
  | [] => k []
  | d :: ds => .cellNew d fun c => cellsNew ds fun cs => k (c :: cs)

/-! ### StreamController -/

structure Sctl where
  sub : Nat      -- subscriber (downstream observer)
  serial : Nat   -- cell: next serial
  map : Nat      -- cell: unscribers, serial ↦ upstream observer whose `unsubscribe` the entry calls
  fin : Nat      -- slot: on_finalize
deriving Inhabited

/-- `finalize`: unsubscribe every registered upstream (holding the map's read lock), clear the map,
    unsubscribe the subscriber if it is still subscribed, run `on_finalize` once (holding its write lock). -/
def Sctl.finalize (sc : Sctl) : Prog :=
  .lockAcq (.cell sc.map) false <|
  .cellRead sc.map true fun m =>
    forEach (amapVals m) (fun o => .obsUnsub o.toInt.toNat .done) ;;
    (.lockRel (.cell sc.map) <|
     .cellWrite sc.map false .lnil <|
     .obsIsSub sc.sub fun b =>
     (if b then Prog.obsUnsub sc.sub .done else .done) ;;
     (.lockAcq (.slot sc.fin) true <|
     .slotCall sc.fin .unit true <|
     .lockRel (.slot sc.fin) .done))

def sctlNew (s : Nat) (k : Sctl → Prog) : Prog :=
  .cellNew (.int 0) fun serial => .cellNew .lnil fun map => .slotNew fun fin =>
    let sc : Sctl := ⟨s, serial, map, fin⟩
    .obsSetOnUnsub s sc.finalize (k sc)

/-- `set_on_finalize`: store the finalizer; if the subscription has already ended (it can end while the operator is
    still inside its subscribe function), run `finalize` now so that the finalizer is not lost -/
def Sctl.setOnFinalize (sc : Sctl) (f : Prog) : Prog :=
  .slotSet sc.fin (fun _ => f) (.obsIsSub sc.sub fun b => if b then .done else sc.finalize)

def Sctl.newObserver (sc : Sctl) (n : Nat → Data → Prog) (e : Nat → Nat → Prog) (c : Nat → Prog)
    (k : Nat → Prog) : Prog :=
  .cellRead sc.serial false fun sv =>
    let serial := sv.toInt.toNat
    .cellWrite sc.serial false (.int (serial + 1)) <|
    .obsNew (n serial) (e serial) (c serial) fun o =>
    .cellRead sc.map false fun m =>
    .cellWrite sc.map false (amapInsert m serial (.int o)) <|
    -- stream_controller.rs `new_observer`: the subscription may have ended while this upstream was being
    -- attached (finalize has walked the table already): detach the new entry and unsubscribe the observer
    .obsIsSub sc.sub fun b =>
      if b then k o
      else .cellRead sc.map false fun m' =>
        .cellWrite sc.map false (amapRemove m' serial) (.obsUnsub o (k o))

def Sctl.sinkNext (sc : Sctl) (d : Data) : Prog :=
  .obsIsSub sc.sub fun b => if b then .obsNext sc.sub d .done else sc.finalize

def Sctl.sinkError (sc : Sctl) (e : Nat) : Prog :=
  .obsIsSub sc.sub fun b => if b then .obsError sc.sub e sc.finalize else sc.finalize

def Sctl.sinkComplete (sc : Sctl) (serial : Nat) : Prog :=
  .obsIsSub sc.sub fun b =>
    if b then
      .cellRead sc.map false fun m =>
        let m' := amapRemove m serial
        .cellWrite sc.map false m' <|
        if amapLen m' == 0 then .obsComplete sc.sub sc.finalize else .done
    else sc.finalize

def Sctl.sinkCompleteForce (sc : Sctl) : Prog :=
  .obsIsSub sc.sub fun b => if b then .obsComplete sc.sub sc.finalize else sc.finalize

/-- `upstream_abort_observe`: remove the entry and call it while holding the map's write lock -/
def Sctl.abortObserve (sc : Sctl) (serial : Nat) : Prog :=
  .lockAcq (.cell sc.map) true <|
  .cellRead sc.map true fun m =>
    .cellWrite sc.map true (amapRemove m serial) <|
    .seq (match amapGet m serial with
          | some o => .obsUnsub o.toInt.toNat .done
          | none => .done)
         (.lockRel (.cell sc.map) .done)

def Sctl.isSub (sc : Sctl) (k : Bool → Prog) : Prog := .obsIsSub sc.sub k

/-! ### Subscription handles held by library code (`Option<Subscription>` cells)
    encoded as `pair (int observer) (int armed-cell)`; `lnil` is `None`. -/

def subscribeWith (src : Obsv) (n : Data → Prog) (e : Nat → Prog) (c : Prog) (k : Data → Prog) : Prog :=
  .obsNew n e c fun o => src.sub o ;; .cellNew (.bool true) fun a => k (.pair (.int o) (.int a))

def innerSubscribeH (src : Obsv) (o : Nat) (k : Data → Prog) : Prog :=
  src.sub o ;; .cellNew (.bool true) fun a => k (.pair (.int o) (.int a))

def subUnsub (h : Data) : Prog :=
  match h with
  | .pair (.int o) (.int a) =>
    .cellRead a.toNat false fun armed =>
      if armed.toBool then .cellWrite a.toNat false (.bool false) (.obsUnsub o.toNat .done) else .done
  | _ => .done

/-! ### Subject (src/subjects/subject.rs) -/

structure Subj where
  observers : Nat    -- cell: serial ↦ observer
  serial : Nat       -- cell
  onSub : Nat        -- slot: on_subscribe(len)
  onUnsub : Nat      -- slot: on_unsubscribe(len)
deriving Inhabited

def subjNew (k : Subj → Prog) : Prog :=
  .cellNew .lnil fun obs => .cellNew (.int 0) fun ser => .slotNew fun a => .slotNew fun b => k ⟨obs, ser, a, b⟩

def Subj.next (sj : Subj) (d : Data) : Prog :=
  .cellRead sj.observers false fun m => forEach (amapVals m) fun o => .obsNext o.toInt.toNat d .done

def Subj.error (sj : Subj) (e : Nat) : Prog :=
  .cellRead sj.observers false fun m => .cellWrite sj.observers false .lnil <|
    forEach (amapVals m) fun o => .obsError o.toInt.toNat e .done

def Subj.complete (sj : Subj) : Prog :=
  .cellRead sj.observers false fun m => .cellWrite sj.observers false .lnil <|
    forEach (amapVals m) fun o => .obsComplete o.toInt.toNat .done

def Subj.observable (sj : Subj) : Obsv := fun s =>
  .obsIsSub s fun alive => if !alive then .done else
  .cellRead sj.serial false fun sv =>
    let serial := sv.toInt + 1
    .cellWrite sj.serial false (.int serial) <|
    .obsSetOnUnsub s
      (.cellRead sj.observers false fun m =>
        let m' := amapRemove m serial
        .cellWrite sj.observers false m' <|
        .lockAcq (.slot sj.onUnsub) false <|
        .slotCall sj.onUnsub (.int (amapLen m')) false <|
        .lockRel (.slot sj.onUnsub) .done) <|
    .cellRead sj.observers false fun m =>
      let m' := amapInsert m serial (.int s)
      .cellWrite sj.observers false m' <|
      .lockAcq (.slot sj.onSub) false <|
      .slotCall sj.onSub (.int (amapLen m')) false <|
      .lockRel (.slot sj.onSub) .done

end Rx
