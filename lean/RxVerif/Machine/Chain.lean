import RxVerif.Machine.Lib
import RxVerif.Kernel.Chain
/-
Model A for operator chains: `src.op₁().op₂()…opₙ()` — each operator wraps the previous observable
(first kernel of the list innermost), exactly as the builder methods of src/operators/*.rs do.
-/
namespace Rx

def chainOp (Ks : List AnyKernel) (src : Obsv) : Obsv := Ks.foldl (fun s A => stdOp A.K s) src

/-- a fresh passive test subscriber subscribes to the chain over a polite script source -/
def subscribeChain (Ks : List AnyKernel) (tag : Nat) (s : Stream) : Prog :=
  .obsvNew (chainOp Ks (oScript tag true s.toEvs)) fun id => .userSub id (fun _ _ _ => .done) .done

/-- the same chain, stages numbered from the subscriber's end -/
def opsFrom (ks : Nat → DK) : Nat → Nat → Obsv → Obsv
  | 0, _, src => src
  | c+1, j, src => stdOp (ks j).kernel (opsFrom ks c (j + 1) src)

end Rx
