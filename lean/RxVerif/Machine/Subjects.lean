import RxVerif.Machine.Lib
/-
Derived subjects (src/subjects/{behavior,replay,async}_subject.rs) and connectables
(src/operators/{publish,ref_count,replay}.rs) as client programs.
-/
namespace Rx

/-! ### BehaviorSubject -/
structure BSubj where
  inner : Subj
  lastItem : Nat    -- cell: Option<Item>
  lastError : Nat   -- cell: Option<RxError>
deriving Inhabited

def BSubj.next (b : BSubj) (d : Data) : Prog :=
  .cellWrite b.lastItem false (Data.optEnc (some d)) (b.inner.next d)
def BSubj.error (b : BSubj) (e : Nat) : Prog :=
  .cellWrite b.lastError false (Data.optEnc (some (.int e))) (b.inner.error e)
def BSubj.complete (b : BSubj) : Prog :=
  .cellWrite b.lastItem false .lnil b.inner.complete

/-- hand-over (stored terminal or latest value, read out first and delivered with no guard held),
    then — if the subscriber is still there — forward the inner subject -/
def BSubj.observable (b : BSubj) : Obsv := fun s =>
  .cellRead b.lastItem false fun li => .cellRead b.lastError false fun le =>
  match Data.optDec le with
  | some e => .obsError s e.toInt.toNat .done
  | none =>
    match Data.optDec li with
    | none => .obsComplete s .done
    | some item =>
      .obsNext s item <|
      .obsIsSub s fun alive => if !alive then .done else
      .cellNew .lnil fun sbsc =>
      .obsSetOnUnsub s (.cellRead sbsc false fun h => subUnsub h) <|
      subscribeWith b.inner.observable (fun x => .obsNext s x .done) (fun e => .obsError s e .done)
        (.obsComplete s .done) fun h => .cellWrite sbsc false h .done

/-! ### ReplaySubject -/
structure RSubj where
  inner : Subj
  items : Nat        -- cell: Vec<Item>
  wasError : Nat     -- cell: Option<RxError>
  wasCompleted : Nat -- cell: bool
deriving Inhabited

def RSubj.next (r : RSubj) (d : Data) : Prog :=
  .cellRead r.items false fun l => .cellWrite r.items false (Data.ofList (l.toList ++ [d])) (r.inner.next d)
def RSubj.error (r : RSubj) (e : Nat) : Prog :=
  .cellWrite r.wasError false (Data.optEnc (some (.int e))) (r.inner.error e)
def RSubj.complete (r : RSubj) : Prog :=
  .cellWrite r.wasCompleted false (.bool true) r.inner.complete

def RSubj.observable (r : RSubj) : Obsv := fun s =>
  .cellNew .lnil fun sbsc =>
  .obsSetOnUnsub s (.cellRead sbsc false fun h => subUnsub h) <|
  -- snapshot the history, then subscribe to the live subject, then replay the snapshot
  .cellRead r.items false fun items => .cellRead r.wasError false fun we => .cellRead r.wasCompleted false fun wc =>
  subscribeWith
    (fun o => r.inner.observable.sub o ;;
      (forEach items.toList (fun x => .obsNext s x .done) ;;
       (match Data.optDec we with
        | some e => .obsError s e.toInt.toNat .done
        | none => if wc.toBool then .obsComplete s .done else .done)))
    (fun x => .obsNext s x .done) (fun e => .obsError s e .done) (.obsComplete s .done)
    fun h => .cellWrite sbsc false h <|
      -- the subscriber ended during the replay: take its forwarder down again
      .obsIsSub s fun alive => if alive then .done else subUnsub h

/-! ### AsyncSubject (src/subjects/async_subject.rs): the subject owns `last_item` and `ended` -/
structure ASubj where
  inner : Subj
  lastItem : Nat    -- cell: Option<Item>
  ended : Nat       -- cell: Option<Ended>;  Completed ↦ `mComplete`, Failed(e) ↦ `mErr e`
deriving Inhabited

/-- `if self.ended.read().is_some() { return }  *self.last_item.write() = Some(item)` -/
def ASubj.next (a : ASubj) (d : Data) : Prog :=
  .cellRead a.ended false fun en =>
    match Data.optDec en with
    | some _ => .done
    | none => .cellWrite a.lastItem false (Data.optEnc (some d)) .done

/-- the `ended` write guard is held over the test and the store, released before the broadcast -/
def ASubj.error (a : ASubj) (e : Nat) : Prog :=
  .lockAcq (.cell a.ended) true <| .cellRead a.ended true fun en =>
    match Data.optDec en with
    | some _ => .lockRel (.cell a.ended) .done
    | none =>
      .cellWrite a.ended true (Data.optEnc (some (.mErr e))) <| .lockRel (.cell a.ended) <|
      a.inner.error e

def ASubj.complete (a : ASubj) : Prog :=
  .lockAcq (.cell a.ended) true <| .cellRead a.ended true fun en =>
    match Data.optDec en with
    | some _ => .lockRel (.cell a.ended) .done
    | none =>
      .cellWrite a.ended true (Data.optEnc (some .mComplete)) <| .lockRel (.cell a.ended) <|
      .cellRead a.lastItem false fun li =>
        (match Data.optDec li with
         | some item => a.inner.next item
         | none => .done) ;;
        a.inner.complete

/-- recorded error → `s.error`; completed → `s.next(last)` (if any), `s.complete`; otherwise the observer goes
    straight into the inner Subject (`subject.observable().inner_subscribe(s)`: no forwarder) -/
def ASubj.observable (a : ASubj) : Obsv := fun s =>
  .cellRead a.ended false fun en =>
    match Data.optDec en with
    | some (.mErr e) => .obsError s e .done
    | some _ =>
      .cellRead a.lastItem false fun li =>
        (match Data.optDec li with
         | some item => .obsNext s item .done
         | none => .done) ;;
        .obsComplete s .done
    | none => a.inner.observable.sub s

/-! ### operators whose items are Observables: window_with_count, group_by
    (a Subject travelling in a cell is encoded as the list of its four ids) -/
def Subj.enc (sj : Subj) : Data := Data.ofList [.int sj.observers, .int sj.serial, .int sj.onSub, .int sj.onUnsub]
def Subj.dec (d : Data) : Subj :=
  match d.toList with
  | [.int a, .int b, .int c, .int e] => ⟨a.toNat, b.toNat, c.toNat, e.toNat⟩
  | _ => default

/-- window_with_count (src/operators/window_with_count.rs): the decision (open a window? close it?) is
    taken under the two state locks, the emissions happen after they are released -/
def oWindowWithCount (count : Nat) (src : Obsv) : Obsv := fun s =>
  .cellNew (.int 0) fun n =>
  subjNew fun sj0 => .cellNew sj0.enc fun sbj =>
  sctlNew s fun sc =>
  sc.newObserver
    (fun _ x =>
      .cellRead n false fun nv => .cellRead sbj false fun cur =>
        let k := nv.toInt.toNat
        let sj := Subj.dec cur
        let close := k + 1 == count
        (if close then subjNew fun fresh => .cellWrite sbj false fresh.enc (.cellWrite n false (.int 0) .done)
         else .cellWrite n false (.int (k + 1)) .done) ;;
        (if k == 0 then .obsvNew sj.observable fun id => sc.sinkNext (.obs id) else .done) ;;
        sj.next x ;;
        (if close then sj.complete else .done))
    (fun _ e => .cellRead sbj false fun cur => (Subj.dec cur).error e ;; sc.sinkError e)
    (fun serial => .cellRead sbj false fun cur => (Subj.dec cur).complete ;; sc.sinkComplete serial)
    fun o => src.sub o

/-- group_by (src/operators/group_by.rs): key ↦ Subject; the group is looked up / created under the map's
    lock, announced downstream and fed after the lock is released; terminals go to a snapshot of the groups -/
def oGroupBy (key : Fn) (src : Obsv) : Obsv := fun s =>
  .cellNew .lnil fun mp =>
  sctlNew s fun sc =>
  sc.newObserver
    (fun _ x =>
      let k := (key.app x).toInt
      .cellRead mp false fun m =>
        match amapGet m k with
        | some sjd => (Subj.dec sjd).next x
        | none =>
          subjNew fun sj =>
            .cellWrite mp false (amapInsert m k sj.enc) <|
            .obsvNew sj.observable fun id =>
            sc.sinkNext (.obs id) ;; sj.next x)
    (fun _ e => .cellRead mp false fun m =>
        forEach (amapVals m) (fun sjd => (Subj.dec sjd).error e) ;; sc.sinkError e)
    (fun serial => .cellRead mp false fun m =>
        forEach (amapVals m) (fun sjd => (Subj.dec sjd).complete) ;; sc.sinkComplete serial)
    fun o => src.sub o

/-! ### publish -/
def publishConnect (src : Obsv) (sj : Subj) (k : Data → Prog) : Prog :=
  subscribeWith src (fun x => sj.next x) (fun e => sj.error e) sj.complete k

/-! ### ref_count / replay: connect on the first subscriber, disconnect when the last one leaves -/
structure RefC where
  connected : Nat     -- cell: bool  (`connecting`)
  subscription : Nat  -- cell: Option<Subscription>
  cancelled : Nat     -- cell: bool
deriving Inhabited

def refCountHooks (rc : RefC) (src : Obsv) (onSubSlot onUnsubSlot : Nat)
    (next : Data → Prog) (error : Nat → Prog) (complete : Prog) : Prog :=
  .slotSet onUnsubSlot (fun count =>
      if count.toInt == 0 then .cellRead rc.subscription false fun h =>
        match h with
        | .lnil => .cellWrite rc.cancelled false (.bool true) .done
        | h => subUnsub h
      else .done) <|
  .slotSet onSubSlot (fun count =>
      if count.toInt == 1 then
        .cellRead rc.connected false fun c =>
          if c.toBool then .done else
          .cellWrite rc.connected false (.bool true) <|
          subscribeWith src next error complete fun h => .cellWrite rc.subscription false h <|
            .cellRead rc.cancelled false fun c => if c.toBool then subUnsub h else .done
      else .done) .done

end Rx
