import RxVerif.Machine.Core
import RxVerif.Kernel.Basic
/-
The crate's clients of the core, as `Prog`s: creation functions (src/observables/*.rs), operators
(src/operators/*.rs), the derived subjects (src/subjects/*.rs) and connectables, plus the
instrumented sources of the harness.  One definition per Rust closure, same call order.
-/
namespace Rx

/-! ### standard single-source operators: `stdOp K` runs kernel `K` through a StreamController -/

def holdAcq (h : Hold) (c : Nat) : Prog :=
  match h with
  | .none => .done
  | .read => .lockAcq (.cell c) false .done
  | .write => .lockAcq (.cell c) true .done

def holdRel (h : Hold) (c : Nat) : Prog :=
  match h with
  | .none => .done
  | _ => .lockRel (.cell c) .done

def emitAllP (sc : Sctl) : List Data → Prog
  | [] => .done
  | d :: ds => sc.isSub fun b => if b then sc.sinkNext d ;; emitAllP sc ds else .done

def actP (sc : Sctl) (serial : Nat) : Act → Prog
  | .emit d => sc.sinkNext d
  | .emitAll ds => emitAllP sc ds
  | .fail e => sc.sinkError e
  | .complete => sc.sinkComplete serial
  | .abortSelf => sc.abortObserve serial
  | .finalize => sc.finalize

def actsP (sc : Sctl) (serial : Nat) (as : List Act) : Prog := forEach as (actP sc serial)

def stdOp {σ} (K : Kernel σ) (src : Obsv) : Obsv := fun s =>
  sctlNew s fun sc => .cellNew (K.enc K.init) fun c =>
  sc.newObserver
    (fun serial x => .cellRead c false fun st =>
      let r := K.onNext (K.dec st) x
      .cellWrite c false (K.enc r.1) (holdAcq K.holdNext c ;; actsP sc serial r.2 ;; holdRel K.holdNext c))
    (fun serial e => .cellRead c false fun st =>
      let r := K.onError (K.dec st) e
      .cellWrite c false (K.enc r.1) (actsP sc serial r.2))
    (fun serial => .cellRead c false fun st =>
      let r := K.onComplete (K.dec st)
      .cellWrite c false (K.enc r.1) (holdAcq K.holdComplete c ;; actsP sc serial r.2 ;; holdRel K.holdComplete c))
    fun o => src.sub o

/-- a hand-written operator: one StreamController, the given closures for the source -/
def fwdOp (src : Obsv) (n : Sctl → Nat → Data → Prog)
    (e : Sctl → Nat → Nat → Prog := fun sc _ e => sc.sinkError e)
    (c : Sctl → Nat → Prog := fun sc serial => sc.sinkComplete serial) : Obsv := fun s =>
  sctlNew s fun sc => sc.newObserver (n sc) (e sc) (c sc) fun o => src.sub o

/-! ### creation functions -/

def oJust (d : Data) : Obsv := fun s => .obsNext s d (.obsComplete s .done)
def oEmpty : Obsv := fun s => .obsComplete s .done
def oNever : Obsv := fun _ => .done
def oError (e : Nat) : Obsv := fun s => .obsError s e .done

def fromIterLoop (s : Nat) : List Data → Prog
  | [] => .obsIsSub s fun b => if b then .obsComplete s .done else .done
  | d :: ds => .obsIsSub s fun b => if b then .obsNext s d (fromIterLoop s ds)
      else .obsIsSub s fun b => if b then .obsComplete s .done else .done
def oFromIter (ds : List Data) : Obsv := fun s => fromIterLoop s ds

def rangeLoop (s : Nat) : List Data → Prog
  | [] => .obsComplete s .done
  | d :: ds => .obsIsSub s fun b => if b then .obsNext s d (rangeLoop s ds) else .obsComplete s .done
def oRange (a : Int) (n : Nat) : Obsv := fun s =>
  rangeLoop s ((List.range n).map fun (i : Nat) => .int (a + (i : Int)))

/-- `while s.is_subscribed() { s.next(x) }` — unrolled `fuel` times; the interpreter's own fuel is
    what cuts a genuine livelock -/
def repeatLoop (s : Nat) (d : Data) : Nat → Prog
  | 0 => .done
  | f+1 => .obsIsSub s fun b => if b then .obsNext s d (repeatLoop s d f) else .done
def oRepeat (d : Data) : Obsv := fun s => repeatLoop s d 100000

def oDefer (f : Obsv) : Obsv := fun s => f.sub s

/-! ### scheduler-based sources and operators over the DEFAULT scheduler
`DefaultScheduler::post(f)` is `f()` and `abort()` does nothing (src/schedulers/default_scheduler.rs), so the
closures of observe_on.rs / subscribe_on.rs / interval.rs / timer.rs run inline, in program order. -/

/-- `IScheduler::post` of the default scheduler: the task runs synchronously, inside `post` -/
def dPost (task : Prog) : Prog := task
/-- `IScheduler::abort` of the default scheduler -/
def dAbort : Prog := .done

/-- interval.rs: `post(loop { sleep; if !s.is_subscribed() { break }; s.next(n); n += 1 }; abort())` -/
def intervalLoop (s : Nat) : Nat → Nat → Prog
  | _, 0 => .done
  | n, f+1 => .obsIsSub s fun b => if b then .obsNext s (.int n) (intervalLoop s (n + 1) f) else dAbort
def oIntervalD : Obsv := fun s => dPost (intervalLoop s 0 100000)

/-- timer.rs: `post(sleep; s.next(()); s.complete(); abort())` -/
def oTimerD : Obsv := fun s => dPost (.obsNext s .unit (.obsComplete s dAbort))

/-- observe_on.rs: one controller, `set_on_finalize(abort)`, every event of the source is posted -/
def oObserveOnD (src : Obsv) : Obsv := fun s =>
  sctlNew s fun sc => sc.setOnFinalize dAbort ;;
  sc.newObserver (fun _ x => dPost (sc.sinkNext x)) (fun _ e => dPost (sc.sinkError e))
    (fun serial => dPost (sc.sinkComplete serial)) fun o => src.sub o

/-- subscribe_on.rs: one controller, `set_on_finalize(abort)`, the subscription of the source is posted -/
def oSubscribeOnD (src : Obsv) : Obsv := fun s =>
  sctlNew s fun sc => sc.setOnFinalize dAbort ;;
  dPost (sc.newObserver (fun _ x => sc.sinkNext x) (fun _ e => sc.sinkError e)
    (fun serial => sc.sinkComplete serial) fun o => src.sub o)
def oStart (d : Data) : Obsv := oJust d

/-! ### instrumented sources of the harness -/

def emitEv (s : Nat) : Ev → Prog
  | .next d => .obsNext s d .done
  | .error e => .obsError s e .done
  | .complete => .obsComplete s .done

/-- probe tags: `tag*4+0` subscription (payload: observer id), `tag*4+1` is_subscribed seen before an
    emission -/
def scriptLoop (tag : Nat) (polite : Bool) (s : Nat) : List Ev → Prog
  | [] => .done
  | ev :: evs => .obsIsSub s fun b =>
      .probe (tag * 4 + 1) (.bool b) <|
      if polite && !b then .done else emitEv s ev ;; scriptLoop tag polite s evs

def oScript (tag : Nat) (polite : Bool) (evs : List Ev) : Obsv := fun s =>
  .probe (tag * 4) (.int s) (scriptLoop tag polite s evs)

/-- k-th subscription plays the k-th script (the last one from then on); the counter is a cell -/
def oFlaky (tag : Nat) (counter : Nat) (scripts : List (List Ev)) : Obsv := fun s =>
  .cellRead counter false fun n =>
    .cellWrite counter false (.int (n.toInt + 1)) <|
    .probe (tag * 4) (.int s) <|
    scriptLoop tag true s (scripts.getD n.toInt.toNat (scripts.getLast?.getD []))

/-! ### derived single-source operators -/

def oFirst (src : Obsv) : Obsv := stdOp kId (stdOp (kTake 1) src)
def oLast (src : Obsv) : Obsv := stdOp kId (stdOp (kTakeLast 1) src)
/-- element_at(n) (1-based) = take(n).skip(n-1) behind a forwarding controller -/
def oElementAt (n : Nat) (src : Obsv) : Obsv :=
  stdOp kId (stdOp (kSkip (n - 1)) (stdOp (kTake n) src))

def oAll (p : Pred) (src : Obsv) : Obsv :=
  fwdOp (stdOp (kTake 1) (stdOp (kFilter p) src))   -- filter keeps the items that FAIL `p` (see denote)
    (fun sc serial _ => sc.abortObserve serial ;; sc.sinkNext (.bool false) ;; sc.sinkComplete serial)
    (fun sc _ e => sc.sinkError e)
    (fun sc serial => sc.sinkNext (.bool true) ;; sc.sinkComplete serial)

def startWithLoop (s : Nat) (k : Prog) : List Data → Prog
  | [] => .obsIsSub s fun b => if b then k else .done
  | d :: ds => .obsIsSub s fun b => if b then .obsNext s d (startWithLoop s k ds)
      else .obsIsSub s fun b => if b then k else .done

def oStartWith (ds : List Data) (src : Obsv) : Obsv := fun s =>
  startWithLoop s (stdOp kId src s) ds

/-- tap: a per-subscription side-effect Observer (probe tag `tag*4+2`: payload = the event) -/
def evData : Ev → Data
  | .next d => .mNext d
  | .error e => .mErr e
  | .complete => .mComplete

def oTap (tag : Nat) (src : Obsv) : Obsv := fun s =>
  .obsNew (fun d => .probe (tag * 4 + 2) (.mNext d) .done) (fun e => .probe (tag * 4 + 2) (.mErr e) .done)
    (.probe (tag * 4 + 2) .mComplete .done) fun t =>
  fwdOp src
    (fun sc _ x => .obsNext t x (sc.sinkNext x))
    (fun sc _ e => .obsError t e (sc.sinkError e))
    (fun sc serial => .obsComplete t (sc.sinkComplete serial)) s

/-- a tap whose item / error callback ends subscription `k` after recording (harness: `tap_unsub`) -/
def oTapUnsub (tag k : Nat) (src : Obsv) : Obsv := fun s =>
  .obsNew (fun d => .probe (tag * 4 + 2) (.mNext d) (.userUnsub k .done))
    (fun e => .probe (tag * 4 + 2) (.mErr e) (.userUnsub k .done))
    (.probe (tag * 4 + 2) .mComplete .done) fun t =>
  fwdOp src
    (fun sc _ x => .obsNext t x (sc.sinkNext x))
    (fun sc _ e => .obsError t e (sc.sinkError e))
    (fun sc serial => .obsComplete t (sc.sinkComplete serial)) s

/-! ### multi-source operators -/

def subscribeAll : List (Obsv × Nat) → Prog
  | [] => .done
  | (src, o) :: rest => src.sub o ;; subscribeAll rest

/-- create `n` observers with the same closures ("prepare subscribers") -/
def newObservers (sc : Sctl) (n : Nat) (mk : Nat → (Nat → Data → Prog) × (Nat → Nat → Prog) × (Nat → Prog))
    (k : List Nat → Prog) : Prog :=
  match n with
  | 0 => k []
  | m+1 => newObservers sc m mk fun os =>
      let h := mk m
      sc.newObserver h.1 h.2.1 h.2.2 fun o => k (os ++ [o])

/-- merge: observers are popped from the back: the source gets the last one created -/
def oMerge (src : Obsv) (others : List Obsv) : Obsv := fun s =>
  sctlNew s fun sc =>
  newObservers sc (others.length + 1)
    (fun _ => (fun _ x => sc.sinkNext x, fun _ e => sc.sinkError e, fun serial => sc.sinkComplete serial))
    fun os => subscribeAll ((src :: others).zip os.reverse)

def zipTryEmit (sc : Sctl) (c : Nat) : Nat → Prog
  | 0 => .done
  | fuel+1 =>
    .cellRead c false fun qs =>
      let queues := qs.toList.map Data.toList
      if queues.all (fun q => q.length > 0) && queues.length > 0 then
        let heads := queues.map fun q => q.headD .unit
        let tails := queues.map fun q => Data.ofList (q.drop 1)
        .cellWrite c false (Data.ofList tails) <|
        sc.isSub fun b => if b then sc.sinkNext (Data.ofList heads) ;; zipTryEmit sc c fuel else .done
      else .done

def oZip (src : Obsv) (others : List Obsv) : Obsv := fun s =>
  sctlNew s fun sc =>
  .cellNew (Data.ofList (List.replicate (others.length + 1) .lnil)) fun c =>
  newObservers sc (others.length + 1)
    (fun id =>
      (fun _ x => .cellRead c false fun qs =>
          let queues := qs.toList
          .cellWrite c false (Data.ofList (queues.modify id fun q => Data.ofList (q.toList ++ [x]))) <|
          zipTryEmit sc c 100000,
       fun _ e => sc.sinkError e,
       fun serial => sc.sinkComplete serial))
    fun os => subscribeAll ((src :: others).zip os)

/-- `register` of src/operators/combine_latest.rs: store the item in slot `id` and snapshot the slots under the
    write guard of the `latest` cell; emit `combine_f` of the latest items AFTER the guard has been released -/
def clRegister (f : Fn2) (sc : Sctl) (c id : Nat) (x : Data) : Prog :=
  .lockAcq (.cell c) true <|
  .cellRead c true fun ls =>
    let l := ls.toList.set id (Data.optEnc (some x))
    .cellWrite c true (Data.ofList l) <|
    .lockRel (.cell c) <|
    if l.all (fun o => (Data.optDec o).isSome) then
      sc.sinkNext (match l.map (fun o => (Data.optDec o).getD .unit) with
        | a :: rest => rest.foldl f.app a
        | [] => .unit)
    else .done

/-- combine_latest.rs: one controller, the `latest` cell (one slot per source, the receiver is number 0), observers
    created for all sources first (serials in creation order, as in zip) and then subscribed in order -/
def oCombineLatest (f : Fn2) (src : Obsv) (others : List Obsv) : Obsv := fun s =>
  sctlNew s fun sc =>
  .cellNew (Data.ofList (List.replicate (others.length + 1) (Data.optEnc none))) fun c =>
  newObservers sc (others.length + 1)
    (fun id =>
      (fun _ x => clRegister f sc c id x,
       fun _ e => sc.sinkError e,
       fun serial => sc.sinkComplete serial))
    fun os => subscribeAll ((src :: others).zip os)

/-- amb: `is_win(serial)` claims the winner cell; losers abort themselves -/
def ambIsWin (w : Nat) (serial : Nat) (k : Bool → Prog) : Prog :=
  .cellRead w false fun cur =>
    match Data.optDec cur with
    | some x => k (x.toInt == serial)
    | none => .cellWrite w false (Data.optEnc (some (.int serial))) (k true)

def oAmb (src : Obsv) (others : List Obsv) : Obsv := fun s =>
  sctlNew s fun sc => .cellNew .lnil fun w =>
  newObservers sc (others.length + 1)
    (fun _ =>
      (fun serial x => ambIsWin w serial fun b => if b then sc.sinkNext x else sc.abortObserve serial,
       fun serial e => ambIsWin w serial fun b => if b then sc.sinkError e else sc.abortObserve serial,
       fun serial => ambIsWin w serial fun b =>
          if b then sc.sinkCompleteForce else sc.abortObserve serial))
    fun os => subscribeAll ((src :: others).zip os.reverse)

/-- concat: the queue of pending sources is per subscription -/
def concatNext (sc : Sctl) (q : Nat) (others : List Obsv) : Nat → Prog
  | 0 => .done
  | fuel+1 =>
    .cellRead q false fun iv =>
      let i := iv.toInt.toNat
      match others[i]? with
      | none => sc.sinkCompleteForce
      | some o =>
        .cellWrite q false (.int (i + 1)) <|
        sc.newObserver (fun _ x => sc.sinkNext x) (fun _ e => sc.sinkError e)
          (fun _ => concatNext sc q others fuel) fun ob => o.sub ob

def oConcat (src : Obsv) (others : List Obsv) : Obsv := fun s =>
  sctlNew s fun sc => .cellNew (.int 0) fun q =>
  sc.newObserver (fun _ x => sc.sinkNext x) (fun _ e => sc.sinkError e)
    (fun _ => concatNext sc q others 100000) fun ob => src.sub ob

/-- `with_end` (src/operators/sequence_equal.rs): `o.map(|x| Some(x)).concat(&[observables::just(None)])` -/
def oWithEnd (o : Obsv) : Obsv := oConcat (stdOp kSome o) [oJust (Data.optEnc none)]

/-- sequence_equal.rs: zip over the sequences extended by their end marker; the first tuple with unequal
    components ⇒ abort, `false`, complete; completion of the zip ⇒ `true`, complete -/
def oSequenceEqual (src : Obsv) (others : List Obsv) : Obsv :=
  fwdOp (oZip (oWithEnd src) (others.map oWithEnd))
    (fun sc serial x =>
      let l := x.toList
      if l.all (fun i => i == l.headD .unit) then .done
      else sc.abortObserve serial ;; sc.sinkNext (.bool false) ;; sc.sinkComplete serial)
    (fun sc _ e => sc.sinkError e)
    (fun sc serial => sc.sinkNext (.bool true) ;; sc.sinkComplete serial)

def oTakeUntil (src trigger : Obsv) : Obsv := fun s =>
  sctlNew s fun sc =>
  sc.newObserver (fun _ _ => sc.sinkCompleteForce) (fun _ _ => .done) (fun _ => .done) fun ot =>
  sc.newObserver (fun _ x => sc.sinkNext x) (fun _ e => sc.sinkError e) (fun _ => sc.sinkCompleteForce)
    fun os => trigger.sub ot ;; src.sub os

def oSkipUntil (src trigger : Obsv) : Obsv := fun s =>
  .cellNew (.bool false) fun en =>
  sctlNew s fun sc =>
  sc.newObserver (fun serial _ => .cellWrite en false (.bool true) (sc.abortObserve serial))
    (fun _ _ => .done) (fun _ => .done) fun ot =>
  sc.newObserver
    (fun _ x => .cellRead en false fun b => if b.toBool then sc.sinkNext x else .done)
    (fun _ e => sc.sinkError e) (fun _ => sc.sinkCompleteForce)
    fun os => trigger.sub ot ;; src.sub os

def oSample (src trigger : Obsv) : Obsv := fun s =>
  .cellNew .lnil fun v =>
  sctlNew s fun sc =>
  sc.newObserver
    (fun _ _ => .cellRead v false fun cur => .cellWrite v false .lnil <|
        match Data.optDec cur with | some x => sc.sinkNext x | none => .done)
    (fun _ _ => .done) (fun _ => .done) fun ot =>
  sc.newObserver
    (fun _ x => .cellWrite v false (Data.optEnc (some x)) .done)
    (fun _ e => sc.sinkError e) (fun _ => sc.sinkCompleteForce)
    fun os => trigger.sub ot ;; src.sub os

def oSwitchOnNext (src target : Obsv) : Obsv := fun s =>
  sctlNew s fun sc => .cellNew (.bool false) fun em =>
  sc.newObserver
    (fun serial x => .cellRead em false fun b => if b.toBool then sc.abortObserve serial else sc.sinkNext x)
    (fun _ e => sc.sinkError e) (fun serial => sc.sinkComplete serial) fun o1 =>
  sc.newObserver
    (fun _ x => .cellWrite em false (.bool true) (sc.sinkNext x))
    (fun _ e => sc.sinkError e) (fun _ => sc.sinkCompleteForce) fun o2 =>
  src.sub o1 ;; target.sub o2

def oFlatMap (f : Data → Obsv) (src : Obsv) : Obsv :=
  fwdOp src fun sc _ x =>
    sc.newObserver (fun _ xx => sc.sinkNext xx) (fun _ ee => sc.sinkError ee)
      (fun serial => sc.sinkComplete serial) fun o => (f x).sub o

def retrySubscribe (sc : Sctl) (src : Obsv) (max : Nat) : Nat → Nat → Prog
  | 0, _ => .done
  | fuel+1, n =>
    sc.newObserver (fun _ x => sc.sinkNext x)
      (fun serial e =>
        if max == 0 || n < max then sc.abortObserve serial ;; retrySubscribe sc src max fuel (n + 1)
        else sc.sinkError e)
      (fun serial => sc.sinkComplete serial) fun o => src.sub o

def oRetry (max : Nat) (src : Obsv) : Obsv := fun s =>
  sctlNew s fun sc => retrySubscribe sc src max 100000 1

def retryWhenSubscribe (sc : Sctl) (src : Obsv) (p : EPred) : Nat → Prog
  | 0 => .done
  | fuel+1 =>
    sc.newObserver (fun _ x => sc.sinkNext x)
      (fun serial e =>
        if p.app e then sc.abortObserve serial ;; retryWhenSubscribe sc src p fuel
        else sc.sinkError e)
      (fun serial => sc.sinkComplete serial) fun o => src.sub o

def oRetryWhen (p : EPred) (src : Obsv) : Obsv := fun s =>
  sctlNew s fun sc => retryWhenSubscribe sc src p 100000

def oOnErrorResumeNext (f : Nat → Obsv) (src : Obsv) : Obsv :=
  fwdOp src (fun sc _ x => sc.sinkNext x)
    (fun sc serial e =>
      sc.abortObserve serial ;;
      sc.newObserver (fun _ xx => sc.sinkNext xx) (fun _ ee => sc.sinkError ee)
        (fun serial => sc.sinkComplete serial) fun o => (f e).sub o)

/-! ### the closure given to the operator ends subscription `k` when it is called (harness: `*_u`)
The Rust closures call the user's function first (`f.call(x)`, `predicate.call(e)`), then `new_observer`. -/

def oFlatMapU (k : Nat) (f : Data → Obsv) (src : Obsv) : Obsv :=
  fwdOp src fun sc _ x =>
    .userUnsub k .done ;;
    sc.newObserver (fun _ xx => sc.sinkNext xx) (fun _ ee => sc.sinkError ee)
      (fun serial => sc.sinkComplete serial) fun o => (f x).sub o

def retryWhenSubscribeU (k : Nat) (sc : Sctl) (src : Obsv) (p : EPred) : Nat → Prog
  | 0 => .done
  | fuel+1 =>
    sc.newObserver (fun _ x => sc.sinkNext x)
      (fun serial e =>
        .userUnsub k .done ;;
        (if p.app e then sc.abortObserve serial ;; retryWhenSubscribeU k sc src p fuel
         else sc.sinkError e))
      (fun serial => sc.sinkComplete serial) fun o => src.sub o

def oRetryWhenU (k : Nat) (p : EPred) (src : Obsv) : Obsv := fun s =>
  sctlNew s fun sc => retryWhenSubscribeU k sc src p 100000

def oOnErrorResumeNextU (k : Nat) (f : Nat → Obsv) (src : Obsv) : Obsv :=
  fwdOp src (fun sc _ x => sc.sinkNext x)
    (fun sc serial e =>
      sc.abortObserve serial ;;
      .userUnsub k .done ;;
      sc.newObserver (fun _ xx => sc.sinkNext xx) (fun _ ee => sc.sinkError ee)
        (fun serial => sc.sinkComplete serial) fun o => (f e).sub o)

end Rx
