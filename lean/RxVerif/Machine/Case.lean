import RxVerif.Sexp
import RxVerif.Machine.Subjects
/-
The case language (DESIGN §3.4): parser from S-expressions and the runner that executes a case on
model A, producing the same canonical observation line the Rust harness prints.
-/
namespace Rx
open Sexp

/-! ### environment of named things -/
inductive Entry where
  | obsv (id : Nat)                                   -- def / connectable observable
  | subj (sj : Subj) (id : Nat)
  | bsubj (b : BSubj) (id : Nat)
  | rsubj (r : RSubj) (id : Nat)
  | asubj (a : ASubj) (id : Nat)
  | publish (src : Nat) (sj : Subj) (id : Nat) (conns : Nat)   -- conns: cell holding the list of handles
  | refc (sj : Subj) (id : Nat)                                -- ref_count / replay connectable
  | rawhot (c : Nat) (id : Nat)                                 -- user-written hot source: cell = observers it was given
  | counter (c : Nat)
deriving Inhabited

abbrev Env := List (String × Entry)

def Env.find (env : Env) (name : String) : Option Entry := (env.find? (·.1 == name)).map (·.2)

def Entry.obsvId : Entry → Nat
  | .obsv id => id | .subj _ id => id | .bsubj _ id => id | .rsubj _ id => id | .asubj _ id => id
  | .publish _ _ id _ => id | .refc _ id => id | .counter c => c | .rawhot _ id => id

def Entry.subject? : Entry → Option Subj
  | .subj sj _ => some sj | .bsubj b _ => some b.inner | .rsubj r _ => some r.inner | .asubj a _ => some a.inner
  | .publish _ sj _ _ => some sj | .refc sj _ => some sj
  | _ => none

/-! ### values, events, function names -/
partial def parseData : Sexp → Option Data
  | .atom "u" => some .unit
  | .atom "T" => some (.bool true)
  | .atom "F" => some (.bool false)
  | .atom s => s.toInt?.map .int
  | .list (.atom "l" :: xs) => (xs.mapM parseData).map Data.ofList
  | .list [.atom "p", a, b] => do some (.pair (← parseData a) (← parseData b))
  | _ => none

def parseEv : Sexp → Option Ev
  | .atom "c" => some .complete
  | .list [.atom "n", v] => (parseData v).map .next
  | .list [.atom "e", k] => k.asNat.map .error
  | _ => none

def parseFn : Sexp → Option Fn
  | .atom "id" => some .id | .atom "inc" => some .inc | .atom "dbl" => some .dbl
  | .atom "neg" => some .neg | .atom "toMat" => some .toMat | .atom "isEven" => some .isEven
  | .list [.atom "add", k] => k.asInt.map .add
  | .list [.atom "mod", k] => k.asInt.map .mod
  | .list [.atom "const", k] => k.asInt.map .const
  -- `(fpush NAME V F)`: a user function that pushes into a subject the first time it is called (harness only, C07:
  -- judged by the outcome of the real run; the model's functions are pure and ignore the push)
  | .list [.atom "fpush", _, _, f] => parseFn f
  | _ => none

def parsePred : Sexp → Option Pred
  | .atom "tt" => some .tt | .atom "ff" => some .ff | .atom "even" => some .even | .atom "odd" => some .odd
  | .list [.atom "lt", k] => k.asInt.map .lt
  | .list [.atom "gt", k] => k.asInt.map .gt
  | .list [.atom "eq", k] => k.asInt.map .eq
  | .list [.atom "ne", k] => k.asInt.map .ne
  | .list [.atom "push", _, _, p] => parsePred p      -- see `fpush`
  | _ => none

def Pred.not : Pred → Data → Bool := fun p d => !p.app d

def parseFn2 : Sexp → Option Fn2
  | .atom "add" => some .add | .atom "mul" => some .mul | .atom "max" => some .max
  | .atom "fst" => some .fst | .atom "snd" => some .snd
  | _ => none

def parseEPred : Sexp → Option EPred
  | .atom "tt" => some .tt | .atom "ff" => some .ff
  | .list [.atom "eq", k] => k.asNat.map .eq
  | .list [.atom "lt", k] => k.asNat.map .lt
  | _ => none

def refObsv (env : Env) (name : String) : Option Obsv :=
  (env.find name).map fun e => fun o => .obsvSub e.obsvId o .done

/-- functions returning observables (flat_map) — leaf sources only -/
def parseFm (env : Env) : Sexp → Option (Data → Obsv)
  | .atom "fm_just" => some fun x => oJust x
  | .atom "fm_two" => some fun x => oFromIter [x, .int (x.toInt + 10)]
  | .atom "fm_range" => some fun x => oRange 0 (x.toInt.emod 3).toNat
  | .atom "fm_empty" => some fun _ => oEmpty
  | .atom "fm_never" => some fun _ => oNever
  | .list [.atom "fm_err", k] => k.asInt.map fun k => fun x => if x.toInt == k then oError 77 else oJust x
  | .list (.atom "fm_ref" :: names) => do
      let os ← names.mapM fun n => n.asAtom >>= refObsv env
      if os.isEmpty then none else
      some fun x => os.getD (x.toInt.emod os.length).toNat oNever
  | _ => none

def parseRs (env : Env) : Sexp → Option (Nat → Obsv)
  | .atom "rs_empty" => some fun _ => oEmpty
  | .atom "rs_same" => some fun e => oError e
  | .atom "rs_payload" => some fun e => oJust (.int e)
  | .list [.atom "rs_just", k] => k.asInt.map fun k => fun _ => oJust (.int k)
  | .list [.atom "rs_err", k] => k.asNat.map fun k => fun _ => oError k
  | .list [.atom "rs_ref", n] => do let o ← n.asAtom >>= refObsv env; some fun _ => o
  | .list (.atom "rs_iter" :: vs) => (vs.mapM parseData).map fun ds => fun _ => oFromIter ds
  | _ => none

/-- actions on the hot sources of a case (`hnext a v`, `hcomplete a`, `herror a e`, `rnext a v`, …) -/
def parseSubjAction (env : Env) : Sexp → Option (Nat → Prog)
  | .list [.atom "rnext", .atom name, v] => do
      let d ← parseData v
      match env.find name with
      | some (.rawhot c _) => some fun _ => .cellRead c false fun l => forEach l.toList fun o => .obsNext o.toInt.toNat d .done
      | _ => none
  | .list [.atom "rerror", .atom name, e] => do
      let e ← e.asNat
      match env.find name with
      | some (.rawhot c _) => some fun _ => .cellRead c false fun l => forEach l.toList fun o => .obsError o.toInt.toNat e .done
      | _ => none
  | .list [.atom "rcomplete", .atom name] =>
      match env.find name with
      | some (.rawhot c _) => some fun _ => .cellRead c false fun l => forEach l.toList fun o => .obsComplete o.toInt.toNat .done
      | _ => none
  | .list [.atom "hnext", .atom name, v] => do
      let d ← parseData v
      match env.find name with
      | some (.subj sj _) => some fun _ => sj.next d
      | some (.asubj a _) => some fun _ => a.next d
      | some (.bsubj b _) => some fun _ => b.next d
      | some (.rsubj r _) => some fun _ => r.next d
      | _ => none
  | .list [.atom "hcomplete", .atom name] =>
      match env.find name with
      | some (.subj sj _) => some fun _ => sj.complete
      | some (.asubj a _) => some fun _ => a.complete
      | some (.bsubj b _) => some fun _ => b.complete
      | some (.rsubj r _) => some fun _ => r.complete
      | _ => none
  | .list [.atom "herror", .atom name, e] => do
      let e ← e.asNat
      match env.find name with
      | some (.subj sj _) => some fun _ => sj.error e
      | some (.asubj a _) => some fun _ => a.error e
      | some (.bsubj b _) => some fun _ => b.error e
      | some (.rsubj r _) => some fun _ => r.error e
      | _ => none
  | _ => none

/-! ### pipelines: S-expression ↦ `Obsv` (pure: no operator allocates outside its `create` closure) -/
partial def parsePipe (env : Env) : Sexp → Option Obsv
  | .list [.atom "just", v] => (parseData v).map oJust
  | .list (.atom "from_iter" :: vs) => (vs.mapM parseData).map oFromIter
  | .list (.atom "from_iter_lazy" :: vs) => (vs.mapM parseData).map oFromIter   -- (the iterator's kind is not modelled)
  | .list [.atom "range", a, n] => do some (oRange (← a.asInt) (← n.asInt).toNat)   -- `initial..initial+count`: empty for count ≤ 0
  | .list [.atom "empty"] => some oEmpty
  | .list [.atom "never"] => some oNever
  | .list [.atom "error", e] => e.asNat.map oError
  | .list [.atom "repeat", v] => (parseData v).map oRepeat
  | .list [.atom "start", v] => (parseData v).map oStart
  -- from_iter.rs / start_with.rs over an endless iterator: `for x in it { if !s.is_subscribed() { break }; s.next(x) }`
  -- leaves its loop only when the subscriber has gone, so nothing after the loop runs (no complete, no source)
  | .list [.atom "from_iter_endless", v] => (parseData v).map oRepeat
  | .list [.atom "start_with_endless", v, _] => (parseData v).map oRepeat
  | .list [.atom "defer", p] => (parsePipe env p).map oDefer
  | .list [.atom "observe_on_d", p] => (parsePipe env p).map oObserveOnD
  | .list [.atom "subscribe_on_d", p] => (parsePipe env p).map oSubscribeOnD
  | .list [.atom "interval_d"] => some (stdOp kId oIntervalD)        -- (the harness maps u64 ↦ item: one `map` layer)
  | .list [.atom "timer_d"] => some (stdOp kId oTimerD)
  | .list [.atom "delay0", p] => (parsePipe env p).map (stdOp kId)   -- delay.rs: sleep, then sink_next
  | .list [.atom "from_result_ok", v] => (parseData v).map oJust
  | .list [.atom "from_result_err", e] => e.asNat.map oError
  | .list (.atom "cold" :: tag :: evs) => do some (oScript (← tag.asNat) true (← evs.mapM parseEv))
  | .list (.atom "rude" :: tag :: evs) => do some (oScript (← tag.asNat) false (← evs.mapM parseEv))
  | .list (.atom "flaky" :: tag :: .atom cname :: scripts) => do
      let ss ← scripts.mapM fun s => match s with
        | .list evs => evs.mapM parseEv
        | _ => none
      match env.find cname with
      | some (.counter c) => some (oFlaky (← tag.asNat) c ss)
      | _ => none
  | .list [.atom "ref", .atom name] => refObsv env name
  | .list [.atom "map", f, p] => do some (stdOp (kMap (← parseFn f)) (← parsePipe env p))
  | .list [.atom "filter", f, p] => do some (stdOp (kFilter (← parsePred f)) (← parsePipe env p))
  | .list [.atom "take", n, p] => do some (stdOp (kTake (← n.asNat)) (← parsePipe env p))
  | .list [.atom "skip", n, p] => do some (stdOp (kSkip (← n.asNat)) (← parsePipe env p))
  | .list [.atom "take_while", f, p] => do some (stdOp (kTakeWhile (← parsePred f)) (← parsePipe env p))
  | .list [.atom "skip_while", f, p] => do some (stdOp (kSkipWhile (← parsePred f)) (← parsePipe env p))
  | .list [.atom "take_last", n, p] => do some (stdOp (kTakeLast (← n.asNat)) (← parsePipe env p))
  | .list [.atom "skip_last", n, p] => do some (stdOp (kSkipLast (← n.asNat)) (← parsePipe env p))
  | .list [.atom "first", p] => (parsePipe env p).map oFirst
  | .list [.atom "last", p] => (parsePipe env p).map oLast
  | .list [.atom "element_at", n, p] => do some (oElementAt (← n.asNat) (← parsePipe env p))
  | .list [.atom "distinct_until_changed", p] => (parsePipe env p).map (stdOp kDistinct)
  | .list [.atom "scan", f, p] => do some (stdOp (kScan (← parseFn2 f)) (← parsePipe env p))
  | .list [.atom "reduce", f, p] => do some (stdOp (kReduce (← parseFn2 f)) (← parsePipe env p))
  | .list [.atom "count", p] => (parsePipe env p).map (stdOp kCount)
  | .list [.atom "sum", p] => (parsePipe env p).map (stdOp kSum)
  | .list [.atom "min", p] => (parsePipe env p).map (stdOp kMin)
  | .list [.atom "max", p] => (parsePipe env p).map (stdOp kMax)
  | .list [.atom "sum_and_count", p] => (parsePipe env p).map (stdOp kSumAndCount)
  | .list [.atom "all", f, p] => do
      let pr ← parsePred f
      some (oAllNeg pr (← parsePipe env p))
  | .list [.atom "contains", v, p] => do some (stdOp (kContains (← parseData v)) (← parsePipe env p))
  | .list [.atom "default_if_empty", v, p] => do some (stdOp (kDefaultIfEmpty (← parseData v)) (← parsePipe env p))
  | .list [.atom "ignore_elements", p] => (parsePipe env p).map (stdOp kIgnoreElements)
  -- utils::ready_set_go (src/utils/ready_set_go.rs): `o.inner_subscribe(s); f()`
  | .list [.atom "rsg", .list acts, p] => do
      let src ← parsePipe env p
      let as ← acts.mapM (parseSubjAction env)
      some fun s => (src.sub s) ;; forEach as (fun a => a 0)
  | .list [.atom "timestamp", p] => (parsePipe env p).map (stdOp kId)
  | .list [.atom "time_interval", p] => (parsePipe env p).map (stdOp kTimeInterval)
  | .list [.atom "start_with", .list (.atom "l" :: vs), p] => do
      some (oStartWith (← vs.mapM parseData) (← parsePipe env p))
  | .list [.atom "buffer_with_count", n, p] => do some (stdOp (kBuffer (← n.asNat)) (← parsePipe env p))
  | .list [.atom "materialize", p] => (parsePipe env p).map (stdOp kMaterialize)
  | .list [.atom "dematerialize", p] => (parsePipe env p).map (stdOp kDematerialize)
  | .list [.atom "map_to_any", p] => (parsePipe env p).map (stdOp kId)
  | .list [.atom "tap", tag, p] => do some (oTap (← tag.asNat) (← parsePipe env p))
  | .list [.atom "tap_unsub", tag, k, p] => do some (oTapUnsub (← tag.asNat) (← k.asNat) (← parsePipe env p))
  | .list (.atom "merge" :: p :: ps) => do some (oMerge (← parsePipe env p) (← ps.mapM (parsePipe env)))
  | .list (.atom "concat" :: p :: ps) => do some (oConcat (← parsePipe env p) (← ps.mapM (parsePipe env)))
  | .list (.atom "zip" :: p :: ps) => do some (oZip (← parsePipe env p) (← ps.mapM (parsePipe env)))
  | .list (.atom "amb" :: p :: ps) => do some (oAmb (← parsePipe env p) (← ps.mapM (parsePipe env)))
  | .list (.atom "combine_latest" :: f :: p :: ps) => do
      some (oCombineLatest (← parseFn2 f) (← parsePipe env p) (← ps.mapM (parsePipe env)))
  | .list (.atom "sequence_equal" :: p :: ps) => do
      some (oSequenceEqual (← parsePipe env p) (← ps.mapM (parsePipe env)))
  | .list [.atom "take_until", p, t] => do some (oTakeUntil (← parsePipe env p) (← parsePipe env t))
  | .list [.atom "skip_until", p, t] => do some (oSkipUntil (← parsePipe env p) (← parsePipe env t))
  | .list [.atom "sample", p, t] => do some (oSample (← parsePipe env p) (← parsePipe env t))
  | .list [.atom "switch_on_next", p, t] => do some (oSwitchOnNext (← parsePipe env p) (← parsePipe env t))
  | .list [.atom "window_with_count", n, p] => do some (oWindowWithCount (← n.asNat) (← parsePipe env p))
  | .list [.atom "group_by", f, p] => do some (oGroupBy (← parseFn f) (← parsePipe env p))
  | .list [.atom "flat_map", f, p] => do some (oFlatMap (← parseFm env f) (← parsePipe env p))
  | .list [.atom "retry", n, p] => do some (oRetry (← n.asNat) (← parsePipe env p))
  | .list [.atom "flat_map_u", k, f, p] => do some (oFlatMapU (← k.asNat) (← parseFm env f) (← parsePipe env p))
  | .list [.atom "retry_when_u", k, f, p] => do some (oRetryWhenU (← k.asNat) (← parseEPred f) (← parsePipe env p))
  | .list [.atom "on_error_resume_next_u", k, f, p] => do
      some (oOnErrorResumeNextU (← k.asNat) (← parseRs env f) (← parsePipe env p))
  | .list [.atom "retry_when", f, p] => do some (oRetryWhen (← parseEPred f) (← parsePipe env p))
  | .list [.atom "on_error_resume_next", f, p] => do
      some (oOnErrorResumeNext (← parseRs env f) (← parsePipe env p))
  | _ => none
where
  /-- `all(p)` = filter(!p).take(1) with the boolean wrapper -/
  oAllNeg (p : Pred) (src : Obsv) : Obsv :=
    fwdOp (stdOp (kTake 1) (fwdOp src fun sc _ x => if p.app x then .done else sc.sinkNext x))
      (fun sc serial _ => sc.abortObserve serial ;; sc.sinkNext (.bool false) ;; sc.sinkComplete serial)
      (fun sc _ e => sc.sinkError e)
      (fun sc serial => sc.sinkNext (.bool true) ;; sc.sinkComplete serial)

/-! ### running a case -/

structure RunState where
  w : World := {}
  env : Env := []
  out : List String := []

def World.allocCell (w : World) (d : Data) : World × Nat := ({ w with cells := w.cells ++ [d] }, w.cells.length)
def World.allocSlot (w : World) : World × Nat := ({ w with slots := w.slots ++ [none] }, w.slots.length)
def World.allocObsv (w : World) (f : Obsv) : World × Nat := ({ w with obsvs := w.obsvs ++ [f] }, w.obsvs.length)

def World.allocSubj (w : World) : World × Subj :=
  let (w, a) := w.allocCell .lnil
  let (w, b) := w.allocCell (.int 0)
  let (w, c) := w.allocSlot
  let (w, d) := w.allocSlot
  (w, ⟨a, b, c, d⟩)

def fuelPerStep : Nat := 60000

def recStr : Rec → String
  | .ev s e => "s" ++ toString s ++ ":" ++ e.toStr
  | .probe tag d =>
    let k := tag / 4
    match tag % 4 with
    | 0 => "p" ++ toString k ++ "+"
    | 1 => "p" ++ toString k ++ "?" ++ d.toStr
    | 2 => "t" ++ toString k ++ ":" ++ (match d with | .mNext x => "n" ++ x.toStr | .mErr e => "e" ++ toString e | _ => "c")
    | _ => "x" ++ toString k ++ ":" ++ d.toStr

def statusStr : Status → String
  | .ok => "ok" | .outOfFuel => "budget" | .deadlock _ => "deadlock" | .panic => "panic"

/-- observers handed to instrumented sources so far, in order -/
def stashed (w : World) : List Nat :=
  w.trace.filterMap fun r => match r with
    | .probe tag (.int o) => if tag % 4 == 0 then some o.toNat else none
    | _ => none

def boolStr (b : Bool) : String := if b then "T" else "F"

def observe (env : Env) (before : Nat) (w : World) : String :=
  let recs := (w.trace.drop before).map recStr
  let subs := w.users.map fun u => boolStr ((w.obs[u.obs]?.map Obs.isSub).getD false)
  let live := (stashed w).map fun o => boolStr ((w.obs[o]?.map Obs.isSub).getD false)
  let counts := env.reverse.filterMap fun (_, e) => e.subject?.map fun sj =>
    toString (amapLen (w.cells[sj.observers]?.getD .lnil))
  if w.status == .ok then
    " ".intercalate recs ++ " ; S=" ++ "".intercalate subs ++ " L=" ++ "".intercalate live ++
      " O=" ++ ",".intercalate counts ++ " st=ok"
  else
    " ".intercalate recs ++ " ; S= L= O= st=" ++ statusStr w.status

/-- user reactions: `(react (I ACTION)...)`; observable-valued items are always subscribed to by a
    child user with no reactions of its own -/
def parseAction (env : Env) : Sexp → Option (Nat → Prog)
  | .atom "unsub" => some fun self => .userUnsub self .done
  | .list [.atom "unsub", s] => s.asNat.map fun s => fun _ => .userUnsub s .done
  | .list [.atom "sub", p] => do
      -- re-entrant arrival: a new subscriber without reactions subscribes from inside the callback
      let o ← parsePipe env p
      some fun _ => .obsvNew o fun id => .userSub id
        (fun _ _ ev => match ev with
          | .next (.obs cid) => .userSub cid (fun _ _ _ => .done) .done
          | _ => .done) .done
  | s => parseSubjAction env s

def childReact : Nat → Nat → Ev → Prog := fun _ _ _ => .done

def parseReact (env : Env) : Sexp → Option (Nat → Nat → Ev → Prog)
  | .list (.atom "react" :: items) => do
      let acts ← items.mapM fun it => match it with
        | .list [i, a] => do some ((← i.asNat), (← parseAction env a))
        | _ => none
      some fun self idx ev =>
        (match ev with
         | .next (.obs id) => .userSub id childReact .done
         | _ => .done) ;;
        forEach (acts.filter (·.1 == idx)) (fun a => a.2 self)
  | _ => none

def stepProg (env : Env) (w : World) : Sexp → Option (World × Env × Prog)
  | .list [.atom "subject", .atom name, .atom "plain"] =>
      let (w, sj) := w.allocSubj
      let (w, id) := w.allocObsv sj.observable
      some (w, (name, .subj sj id) :: env, .done)
  | .list [.atom "subject", .atom name, .atom "async"] =>
      let (w, sj) := w.allocSubj
      let (w, li) := w.allocCell .lnil
      let (w, en) := w.allocCell .lnil
      let a : ASubj := ⟨sj, li, en⟩
      let (w, id) := w.allocObsv a.observable
      some (w, (name, .asubj a id) :: env, .done)
  | .list [.atom "subject", .atom name, .atom "behavior", v] => do
      let d ← parseData v
      let (w, sj) := w.allocSubj
      let (w, li) := w.allocCell (Data.optEnc (some d))
      let (w, le) := w.allocCell .lnil
      let b : BSubj := ⟨sj, li, le⟩
      let (w, id) := w.allocObsv b.observable
      some (w, (name, .bsubj b id) :: env, .done)
  | .list [.atom "subject", .atom name, .atom "replay"] =>
      let (w, sj) := w.allocSubj
      let (w, it) := w.allocCell .lnil
      let (w, we) := w.allocCell .lnil
      let (w, wc) := w.allocCell (.bool false)
      let r : RSubj := ⟨sj, it, we, wc⟩
      let (w, id) := w.allocObsv r.observable
      some (w, (name, .rsubj r id) :: env, .done)
  | .list [.atom "rawhot", .atom name] =>
      let (w, c) := w.allocCell .lnil
      let (w, id) := w.allocObsv fun s => .cellRead c false fun l => .cellWrite c false (Data.ofList (l.toList ++ [.int s])) .done
      some (w, (name, .rawhot c id) :: env, .done)
  | .list [.atom "counter", .atom name] =>
      let (w, c) := w.allocCell (.int 0)
      some (w, (name, .counter c) :: env, .done)
  | .list [.atom "def", .atom name, p] => do
      let o ← parsePipe env p
      let (w, id) := w.allocObsv o
      some (w, (name, .obsv id) :: env, .done)
  | .list [.atom "conn", .atom name, .atom "publish", p] => do
      let o ← parsePipe env p
      let (w, srcId) := w.allocObsv o
      let (w, sj) := w.allocSubj
      let (w, id) := w.allocObsv sj.observable
      let (w, conns) := w.allocCell .lnil
      some (w, (name, .publish srcId sj id conns) :: env, .done)
  | .list [.atom "conn", .atom name, .atom "ref_count", p] => do
      let o ← parsePipe env p
      let (w, sj) := w.allocSubj
      let (w, c) := w.allocCell (.bool false)
      let (w, sb) := w.allocCell .lnil
      let (w, cn) := w.allocCell (.bool false)
      let (w, id) := w.allocObsv sj.observable
      some (w, (name, .refc sj id) :: env,
        refCountHooks ⟨c, sb, cn⟩ o sj.onSub sj.onUnsub (fun x => sj.next x) (fun e => sj.error e) sj.complete)
  | .list [.atom "conn", .atom name, .atom "replay", p] => do
      let o ← parsePipe env p
      let (w, sj) := w.allocSubj
      let (w, it) := w.allocCell .lnil
      let (w, we) := w.allocCell .lnil
      let (w, wc) := w.allocCell (.bool false)
      let r : RSubj := ⟨sj, it, we, wc⟩
      let (w, c) := w.allocCell (.bool false)
      let (w, sb) := w.allocCell .lnil
      let (w, cn) := w.allocCell (.bool false)
      let (w, id) := w.allocObsv r.observable
      some (w, (name, .refc sj id) :: env,
        refCountHooks ⟨c, sb, cn⟩ o sj.onSub sj.onUnsub (fun x => r.next x) (fun e => r.error e) r.complete)
  | .list [.atom "sub", p, react] => do
      let o ← parsePipe env p
      let r ← parseReact env react
      let (w, id) := w.allocObsv o
      some (w, env, .userSub id r .done)
  | .list [.atom "unsub", s] => do some (w, env, .userUnsub (← s.asNat) .done)
  -- `utils::Using` is a guard whose drop (at scope end, or while a panic unwinds) calls `unsubscribe`
  | .list [.atom "unsub", s, .atom "using"] => do some (w, env, .userUnsub (← s.asNat) .done)
  | .list [.atom "unsub", s, .atom "unwind"] => do some (w, env, .userUnsub (← s.asNat) .done)
  | .list [.atom "connect", .atom name] =>
      match env.find name with
      | some (.publish srcId sj _ conns) =>
        some (w, env, publishConnect (fun o => .obsvSub srcId o .done) sj fun h =>
          .cellRead conns false fun l => .cellWrite conns false (Data.ofList (l.toList ++ [h])) .done)
      | _ => none
  | .list [.atom "disconnect", .atom name] =>
      match env.find name with
      | some (.publish _ _ _ conns) =>
        some (w, env, .cellRead conns false fun l => forEach l.toList subUnsub)
      | _ => none
  -- C05: `n` clones of one Subscription (subscription.rs: call-and-clear of a SHARED slot), each unsubscribed (odd ones
  -- through a Using guard), then the original: the teardown has run once after the first, and never again
  | .list [.atom "subhandles", n] => do
      let n ← n.asNat
      some (w, env, .probe (200 * 4 + 3) (.int 1) .done ;;
        forEach (List.range n) (fun _ => .probe (201 * 4 + 3) (.int 1) .done) ;;
        .probe (201 * 4 + 3) (.int (if n == 0 then 1 else 1)) .done ;; .probe (200 * 4 + 3) (.int 0) .done)
  -- C08, last clause: `n` tasks posted to a default scheduler; each runs inside `post` on the posting thread
  -- (record `x(100+i):1`), then `post` returns (record `x(100+i):2`)
  | .list [.atom "dpost", n] => do
      let n ← n.asNat
      some (w, env, forEach (List.range n) fun i =>
        dPost (.probe ((100 + i) * 4 + 3) (.int 1) .done) ;; .probe ((100 + i) * 4 + 3) (.int 2) .done)
  -- the caller drops one named handle and keeps its subscriptions: ownership is not modelled, the name leaves the environment
  | .list [.atom "forget", .atom name] => some (w, env.filter (fun p => p.1 != name), .done)
  | .list [.atom "drop"] => some (w, env, .done)
  | s@(.list (.atom "hnext" :: _)) => (parseAction env s).map fun a => (w, env, a 0)
  | s@(.list (.atom "hcomplete" :: _)) => (parseAction env s).map fun a => (w, env, a 0)
  | s@(.list (.atom "herror" :: _)) => (parseAction env s).map fun a => (w, env, a 0)
  | s@(.list (.atom "rnext" :: _)) => (parseAction env s).map fun a => (w, env, a 0)
  | s@(.list (.atom "rerror" :: _)) => (parseAction env s).map fun a => (w, env, a 0)
  | s@(.list (.atom "rcomplete" :: _)) => (parseAction env s).map fun a => (w, env, a 0)
  | _ => none

def runSteps (rs : RunState) : List Sexp → RunState
  | [] => rs
  | s :: rest =>
    match stepProg rs.env rs.w s with
    | none => { rs with out := rs.out ++ ["PARSE-ERROR " ++ toString s] }
    | some (w, env, p) =>
      let before := w.trace.length
      let w' := run fuelPerStep [p] w
      let rs' := { w := w', env := env, out := rs.out ++ [observe env before w'] }
      if w'.status == .ok then runSteps rs' rest else rs'

def runCase (line : String) : String :=
  match Sexp.parse line with
  | some (.list (.atom "case" :: .atom id :: steps)) =>
    let rs := runSteps {} steps
    id ++ " | " ++ " | ".intercalate rs.out
  | _ => "PARSE-ERROR " ++ line

end Rx
