use another_rxrust::prelude::*;
use std::sync::atomic::{AtomicI64, Ordering};

pub static LIVE: [AtomicI64; 3] = [AtomicI64::new(0), AtomicI64::new(0), AtomicI64::new(0)];
pub const USER: usize = 0;
pub const OP: usize = 1;
pub const ITEM: usize = 2;

/// reference-counted token: counts live owners per class (C17)
pub struct Tok(pub usize);
impl Tok {
  pub fn new(class: usize) -> Tok {
    LIVE[class].fetch_add(1, Ordering::SeqCst);
    Tok(class)
  }
}
impl Clone for Tok {
  fn clone(&self) -> Tok {
    Tok::new(self.0)
  }
}
impl Drop for Tok {
  fn drop(&mut self) {
    LIVE[self.0].fetch_sub(1, Ordering::SeqCst);
  }
}
pub fn live(class: usize) -> i64 {
  LIVE[class].load(Ordering::SeqCst)
}
pub fn reset_live() {
  for c in LIVE.iter() {
    c.store(0, Ordering::SeqCst);
  }
}

pub type Ob = Observable<'static, V>;

#[derive(Clone)]
pub enum K {
  U,
  I(i64),
  B(bool),
  L(Vec<V>),
  P(Box<V>, Box<V>),
  MN(Box<V>),
  ME(RxError),
  MC,
  O(Ob),
}

#[derive(Clone)]
pub struct V {
  pub k: K,
  _t: Tok,
}

/// error payload: not Clone, so the library cannot fabricate one
#[derive(Debug)]
pub struct EP {
  pub id: i64,
}

/// error payloads of several TYPES, chosen by the injected id (C04: `downcast_ref` to the ORIGINAL type yields the
/// original value): < 1000 the harness's own struct, 1000.. an `RxError` wrapping that struct (a nested error),
/// 2000.. a `String`, 3000.. an `i64`
pub fn mk_payload_err(id: i64) -> RxError {
  match id {
    1000..=1999 => RxError::from_error(RxError::from_error(EP { id })),
    2000..=2999 => RxError::from_error(format!("payload-{}", id)),
    3000..=3999 => RxError::from_error(id),
    _ => RxError::from_error(EP { id }),
  }
}

pub fn err_id(e: &RxError) -> String {
  use std::any::TypeId;
  if let Some(p) = e.downcast_ref::<EP>() {
    // the harness's struct directly: only ids below 1000 are injected this way
    return if (p.id < 1000 || p.id >= 4000) && e.is::<EP>() && e.type_id() == TypeId::of::<EP>() { format!("{}", p.id) } else { "?".to_string() };
  }
  if let Some(inner) = e.downcast_ref::<RxError>() {
    return match inner.downcast_ref::<EP>() {
      Some(p) if (1000..2000).contains(&p.id) && e.is::<RxError>() && e.type_id() == TypeId::of::<RxError>() => format!("{}", p.id),
      _ => "?".to_string(),
    };
  }
  if let Some(t) = e.downcast_ref::<String>() {
    return match t.strip_prefix("payload-").and_then(|x| x.parse::<i64>().ok()) {
      Some(id) if (2000..3000).contains(&id) && e.is::<String>() => format!("{}", id),
      _ => "?".to_string(),
    };
  }
  if let Some(id) = e.downcast_ref::<i64>() {
    return if (3000..4000).contains(id) && e.is::<i64>() { format!("{}", id) } else { "?".to_string() };
  }
  "?".to_string()
}

impl V {
  pub fn new(k: K) -> V {
    V { k, _t: Tok::new(ITEM) }
  }
  pub fn int(i: i64) -> V {
    V::new(K::I(i))
  }
  pub fn boolean(b: bool) -> V {
    V::new(K::B(b))
  }
  pub fn list(l: Vec<V>) -> V {
    V::new(K::L(l))
  }
  pub fn to_int(&self) -> i64 {
    match &self.k {
      K::I(i) => *i,
      _ => 0,
    }
  }
  pub fn show(&self) -> String {
    match &self.k {
      K::U => "u".to_string(),
      K::I(i) => format!("{}", i),
      K::B(true) => "T".to_string(),
      K::B(false) => "F".to_string(),
      K::L(l) => format!("[{}]", l.iter().map(|x| x.show()).collect::<Vec<_>>().join(",")),
      K::P(a, b) => format!("<{},{}>", a.show(), b.show()),
      K::MN(d) => format!("N:{}", d.show()),
      K::ME(e) => format!("E:{}", err_id(e)),
      K::MC => "C".to_string(),
      K::O(_) => "obs".to_string(),
    }
  }
}

impl PartialEq for V {
  fn eq(&self, other: &V) -> bool {
    match (&self.k, &other.k) {
      (K::U, K::U) => true,
      (K::I(a), K::I(b)) => a == b,
      (K::B(a), K::B(b)) => a == b,
      (K::L(a), K::L(b)) => a == b,
      (K::P(a, b), K::P(c, d)) => a == c && b == d,
      (K::MN(a), K::MN(b)) => a == b,
      (K::ME(a), K::ME(b)) => err_id(a) == err_id(b),
      (K::MC, K::MC) => true,
      _ => false,
    }
  }
}
impl PartialOrd for V {
  fn partial_cmp(&self, other: &V) -> Option<std::cmp::Ordering> {
    self.to_int().partial_cmp(&other.to_int())
  }
}
impl std::ops::Add for V {
  type Output = V;
  fn add(self, rhs: V) -> V {
    V::int(self.to_int() + rhs.to_int())
  }
}
impl std::fmt::Debug for V {
  fn fmt(&self, f: &mut std::fmt::Formatter<'_>) -> std::fmt::Result {
    write!(f, "{}", self.show())
  }
}
