//! Interpreter of the shared case language (DESIGN §3.4) on top of the crate's public API; shared by
//! the sequential harness (harness/seq) and the concurrent one (harness/conc).
#![allow(dead_code)]
use crate::sexp::Sexp;
use crate::value::*;
use another_rxrust::prelude::*;
use another_rxrust::verif_std::thread as vthread;
use std::sync::{Arc, Mutex};

#[derive(Clone)]
pub enum Entry {
  Obsv(Ob),
  Subj(subjects::Subject<'static, V>),
  BSubj(subjects::BehaviorSubject<'static, V>),
  RSubj(subjects::ReplaySubject<'static, V>),
  ASubj(subjects::AsyncSubject<'static, V>),
  Publish(Arc<operators::Publish<'static, V>>, Arc<Mutex<Vec<Subscription<'static>>>>),
  RefCount(Arc<operators::RefCount<'static, V>>),
  Replay(Arc<operators::Replay<'static, V>>),
  Counter(Arc<Mutex<usize>>),
  /// a user-written hot source: remembers every observer it was given and pushes into them unchecked
  RawHot(Arc<Mutex<Vec<Observer<'static, V>>>>, Ob),
}

impl Entry {
  pub fn observable(&self) -> Option<Ob> {
    Some(match self {
      Entry::Obsv(o) => o.clone(),
      Entry::Subj(s) => s.observable(),
      Entry::BSubj(s) => s.observable(),
      Entry::RSubj(s) => s.observable(),
      Entry::ASubj(s) => s.observable(),
      Entry::Publish(p, _) => p.observable(),
      Entry::RefCount(p) => p.observable(),
      Entry::Replay(p) => p.observable(),
      Entry::RawHot(_, o) => o.clone(),
      Entry::Counter(_) => return None,
    })
  }
  pub fn observer_count(&self) -> Option<usize> {
    match self {
      Entry::Subj(s) => Some(s.verif_observer_count()),
      Entry::BSubj(s) => Some(s.verif_observer_count()),
      Entry::RSubj(s) => Some(s.verif_observer_count()),
      Entry::ASubj(s) => Some(s.verif_observer_count()),
      Entry::Publish(p, _) => Some(p.verif_observer_count()),
      Entry::RefCount(p) => Some(p.verif_observer_count()),
      Entry::Replay(p) => Some(p.verif_observer_count()),
      _ => None,
    }
  }
}

pub type Action = Arc<dyn Fn(usize) + Send + Sync>;

pub struct User {
  pub sub: Option<Subscription<'static>>,
  pub events: usize,
}

#[derive(Default)]
pub struct SharedInner {
  pub trace: Vec<String>,
  pub users: Vec<User>,
  pub stash: Vec<Observer<'static, V>>,
  pub env: Vec<(String, Entry)>,
  /// concurrent mode: every trace record is also sent here (with thread id / virtual time)
  pub hook: Option<Arc<dyn Fn(&str) + Send + Sync>>,
}

#[derive(Clone)]
pub struct Shared(Arc<Mutex<SharedInner>>);

/// the harness state of the case being executed (closures given to operators may re-enter the library: `(push ..)`)
static CURRENT: Mutex<Option<Shared>> = Mutex::new(None);
pub fn set_current(sh: Option<Shared>) {
  *CURRENT.lock().unwrap_or_else(|e| e.into_inner()) = sh;
}
fn current() -> Option<Shared> {
  CURRENT.lock().unwrap_or_else(|e| e.into_inner()).clone()
}
/// `(hnext NAME V)` built against the current case, fired at most once
fn push_once(name: &Sexp, v: &Sexp) -> Option<Arc<dyn Fn() + Send + Sync>> {
  let sh = current()?;
  let sx = Sexp::List(vec![Sexp::Atom("hnext".into()), name.clone(), v.clone()]);
  let act = subject_action(&sh, &sx)?;
  let fired = std::sync::atomic::AtomicBool::new(false);
  Some(Arc::new(move || {
    if !fired.swap(true, std::sync::atomic::Ordering::SeqCst) {
      act(0);
    }
  }))
}

impl Shared {
  pub fn new() -> Shared {
    Shared(Arc::new(Mutex::new(SharedInner::default())))
  }
  pub fn lock(&self) -> std::sync::MutexGuard<'_, SharedInner> {
    self.0.lock().unwrap_or_else(|e| e.into_inner())
  }
  pub fn rec(&self, s: String) {
    let hook = {
      let mut g = self.lock();
      g.trace.push(s.clone());
      g.hook.clone()
    };
    if let Some(h) = hook {
      h(&s);
    }
  }
  pub fn find(&self, name: &str) -> Option<Entry> {
    self.lock().env.iter().find(|(n, _)| n == name).map(|(_, e)| e.clone())
  }
}

// ---------------------------------------------------------------------------------------------
// values, events, function families (must agree with lean/RxVerif/Data.lean)

pub fn parse_data(e: &Sexp) -> Option<V> {
  match e {
    Sexp::Atom(s) => match s.as_str() {
      "u" => Some(V::new(K::U)),
      "T" => Some(V::boolean(true)),
      "F" => Some(V::boolean(false)),
      _ => s.parse::<i64>().ok().map(V::int),
    },
    Sexp::List(_) => {
      let (h, args) = e.call()?;
      match h {
        "l" => Some(V::list(args.iter().map(parse_data).collect::<Option<Vec<_>>>()?)),
        "p" if args.len() == 2 => Some(V::new(K::P(Box::new(parse_data(&args[0])?), Box::new(parse_data(&args[1])?)))),
        _ => None,
      }
    }
  }
}

#[derive(Clone)]
pub enum Ev {
  N(V),
  E(i64),
  C,
}

pub fn parse_ev(e: &Sexp) -> Option<Ev> {
  if e.atom() == Some("c") {
    return Some(Ev::C);
  }
  let (h, args) = e.call()?;
  match (h, args.len()) {
    ("n", 1) => Some(Ev::N(parse_data(&args[0])?)),
    ("e", 1) => Some(Ev::E(args[0].int()?)),
    _ => None,
  }
}

pub fn mk_err(id: i64) -> RxError {
  mk_payload_err(id)
}

pub type F1 = Arc<dyn Fn(V) -> V + Send + Sync>;
pub type P1 = Arc<dyn Fn(V) -> bool + Send + Sync>;
pub type F2 = Arc<dyn Fn(V, V) -> V + Send + Sync>;

pub fn emod(a: i64, k: i64) -> i64 {
  a.rem_euclid(k)
}

pub fn parse_fn(e: &Sexp) -> Option<F1> {
  let t = Tok::new(OP);
  if let Some(a) = e.atom() {
    return Some(match a {
      "id" => Arc::new(move |x| { let _t = &t; x }),
      "inc" => Arc::new(move |x: V| { let _t = &t; V::int(x.to_int() + 1) }),
      "dbl" => Arc::new(move |x: V| { let _t = &t; V::int(x.to_int() * 2) }),
      "neg" => Arc::new(move |x: V| { let _t = &t; V::int(-x.to_int()) }),
      "isEven" => Arc::new(move |x: V| { let _t = &t; V::boolean(emod(x.to_int(), 2) == 0) }),
      "toMat" => Arc::new(move |x: V| {
        let _t = &t;
        let i = x.to_int();
        if i == 0 {
          V::new(K::MC)
        } else if i < 0 {
          V::new(K::ME(mk_err(-i)))
        } else {
          V::new(K::MN(Box::new(x)))
        }
      }),
      _ => return None,
    });
  }
  let (h, args) = e.call()?;
  if h == "fpush" {
    // a user function that re-enters the library: the first time it is called it pushes V into subject NAME
    let push = push_once(args.first()?, args.get(1)?)?;
    let inner = parse_fn(args.get(2)?)?;
    return Some(Arc::new(move |x: V| {
      push();
      inner(x)
    }));
  }
  let k = args.first()?.int()?;
  Some(match h {
    "add" => Arc::new(move |x: V| { let _t = &t; V::int(x.to_int() + k) }),
    "mod" => Arc::new(move |x: V| { let _t = &t; V::int(emod(x.to_int(), k)) }),
    "const" => Arc::new(move |_x: V| { let _t = &t; V::int(k) }),
    _ => return None,
  })
}

pub fn parse_pred(e: &Sexp) -> Option<P1> {
  let t = Tok::new(OP);
  if let Some(a) = e.atom() {
    return Some(match a {
      "tt" => Arc::new(move |_| { let _t = &t; true }),
      "ff" => Arc::new(move |_| { let _t = &t; false }),
      "even" => Arc::new(move |x: V| { let _t = &t; emod(x.to_int(), 2) == 0 }),
      "odd" => Arc::new(move |x: V| { let _t = &t; emod(x.to_int(), 2) == 1 }),
      _ => return None,
    });
  }
  let (h, args) = e.call()?;
  if h == "push" {
    // a user predicate that re-enters the library (see `fpush`)
    let push = push_once(args.first()?, args.get(1)?)?;
    let inner = parse_pred(args.get(2)?)?;
    return Some(Arc::new(move |x: V| {
      push();
      inner(x)
    }));
  }
  let k = args.first()?.int()?;
  Some(match h {
    "lt" => Arc::new(move |x: V| { let _t = &t; x.to_int() < k }),
    "gt" => Arc::new(move |x: V| { let _t = &t; x.to_int() > k }),
    "eq" => Arc::new(move |x: V| { let _t = &t; x.to_int() == k }),
    "ne" => Arc::new(move |x: V| { let _t = &t; x.to_int() != k }),
    _ => return None,
  })
}

pub fn parse_fn2(e: &Sexp) -> Option<F2> {
  let t = Tok::new(OP);
  Some(match e.atom()? {
    "add" => Arc::new(move |a: V, b: V| { let _t = &t; V::int(a.to_int() + b.to_int()) }),
    "mul" => Arc::new(move |a: V, b: V| { let _t = &t; V::int(a.to_int() * b.to_int()) }),
    "max" => Arc::new(move |a: V, b: V| { let _t = &t; V::int(if a.to_int() < b.to_int() { b.to_int() } else { a.to_int() }) }),
    "fst" => Arc::new(move |a: V, _b: V| { let _t = &t; a }),
    "snd" => Arc::new(move |_a: V, b: V| { let _t = &t; b }),
    _ => return None,
  })
}

pub fn parse_epred(e: &Sexp) -> Option<Arc<dyn Fn(RxError) -> bool + Send + Sync>> {
  let t = Tok::new(OP);
  let id = |e: &RxError| e.downcast_ref::<EP>().map(|p| p.id).unwrap_or(-1);
  if let Some(a) = e.atom() {
    return Some(match a {
      "tt" => Arc::new(move |_| { let _t = &t; true }),
      "ff" => Arc::new(move |_| { let _t = &t; false }),
      _ => return None,
    });
  }
  let (h, args) = e.call()?;
  let k = args.first()?.int()?;
  Some(match h {
    "eq" => Arc::new(move |e: RxError| { let _t = &t; id(&e) == k }),
    "lt" => Arc::new(move |e: RxError| { let _t = &t; id(&e) < k }),
    _ => return None,
  })
}

// ---------------------------------------------------------------------------------------------
// instrumented sources

pub fn emit_ev(s: &Observer<'static, V>, ev: &Ev) {
  match ev {
    Ev::N(v) => s.next(v.clone()),
    Ev::E(id) => s.error(mk_err(*id)),
    Ev::C => s.complete(),
  }
}

pub fn script_source(sh: &Shared, tag: usize, polite: bool, evs: Vec<Ev>) -> Ob {
  let sh = sh.clone();
  Observable::create(move |s: Observer<'static, V>| {
    sh.rec(format!("p{}+", tag));
    sh.lock().stash.push(s.clone());
    for ev in evs.iter() {
      let b = s.is_subscribed();
      sh.rec(format!("p{}?{}", tag, if b { "T" } else { "F" }));
      if polite && !b {
        break;
      }
      emit_ev(&s, ev);
    }
  })
}

pub fn flaky_source(sh: &Shared, tag: usize, counter: Arc<Mutex<usize>>, scripts: Vec<Vec<Ev>>) -> Ob {
  let sh = sh.clone();
  Observable::create(move |s: Observer<'static, V>| {
    let n = {
      let mut c = counter.lock().unwrap_or_else(|e| e.into_inner());
      let n = *c;
      *c += 1;
      n
    };
    sh.rec(format!("p{}+", tag));
    sh.lock().stash.push(s.clone());
    let empty = Vec::new();
    let evs = scripts.get(n).or(scripts.last()).unwrap_or(&empty);
    for ev in evs.iter() {
      let b = s.is_subscribed();
      sh.rec(format!("p{}?{}", tag, if b { "T" } else { "F" }));
      if !b {
        break;
      }
      emit_ev(&s, ev);
    }
  })
}

/// a source that emits from its own thread: `(gap-ms event)*`; every emission is stamped
/// `x<tag>!<ev>` when the call starts and `x<tag>.<ev>` when it has returned
pub fn threaded_source(sh: &Shared, tag: usize, script: Vec<(u64, Ev)>) -> Ob {
  let sh = sh.clone();
  Observable::create(move |s: Observer<'static, V>| {
    let sh = sh.clone();
    let script = script.clone();
    sh.rec(format!("x{}+", tag));
    sh.lock().stash.push(s.clone());
    vthread::spawn(move || {
      sh.rec("HT".to_string()); // harness thread marker (not a thread of the library)
      for (gap, ev) in script.iter() {
        if *gap > 0 {
          vthread::sleep(std::time::Duration::from_millis(*gap));
        }
        let text = match ev {
          Ev::N(v) => format!("n{}", v.show()),
          Ev::E(id) => format!("e{}", id),
          Ev::C => "c".to_string(),
        };
        sh.rec(format!("x{}!{}", tag, text));
        emit_ev(&s, ev);
        sh.rec(format!("x{}.{}", tag, text));
      }
    });
  })
}

// ---------------------------------------------------------------------------------------------
// pipelines

pub fn refob(sh: &Shared, name: &str) -> Option<Ob> {
  // resolved at subscribe time, like `.observable()` evaluated once here: the Observable value of a
  // subject is a stateless handle, so evaluating it at build time is equivalent
  sh.find(name)?.observable()
}

pub fn parse_fm(sh: &Shared, e: &Sexp) -> Option<Arc<dyn Fn(V) -> Ob + Send + Sync>> {
  let t = Tok::new(OP);
  if let Some(a) = e.atom() {
    return Some(match a {
      "fm_just" => Arc::new(move |x| { let _t = &t; observables::just(x) }),
      "fm_two" => Arc::new(move |x: V| { let _t = &t; observables::from_iter(vec![x.clone(), V::int(x.to_int() + 10)].into_iter()) }),
      "fm_range" => Arc::new(move |x: V| { let _t = &t; observables::range(0, emod(x.to_int(), 3)).map(V::int) }),
      "fm_empty" => Arc::new(move |_| { let _t = &t; observables::empty() }),
      "fm_never" => Arc::new(move |_| { let _t = &t; observables::never() }),
      _ => return None,
    });
  }
  let (h, args) = e.call()?;
  match h {
    "fm_err" => {
      let k = args.first()?.int()?;
      Some(Arc::new(move |x: V| { let _t = &t; if x.to_int() == k { observables::error(mk_err(77)) } else { observables::just(x) } }))
    }
    "fm_ref" => {
      let obs = args.iter().map(|n| n.atom().and_then(|n| refob(sh, n))).collect::<Option<Vec<_>>>()?;
      if obs.is_empty() {
        return None;
      }
      Some(Arc::new(move |x: V| { let _t = &t; obs[emod(x.to_int(), obs.len() as i64) as usize].clone() }))
    }
    _ => None,
  }
}

pub fn parse_rs(sh: &Shared, e: &Sexp) -> Option<Arc<dyn Fn(RxError) -> Ob + Send + Sync>> {
  let t = Tok::new(OP);
  if let Some(a) = e.atom() {
    return Some(match a {
      "rs_empty" => Arc::new(move |_| { let _t = &t; observables::empty() }),
      "rs_same" => Arc::new(move |e: RxError| { let _t = &t; observables::error(e) }),
      "rs_payload" => Arc::new(move |e: RxError| { let _t = &t; observables::just(V::int(err_id(&e).parse::<i64>().unwrap_or(-1))) }),
      _ => return None,
    });
  }
  let (h, args) = e.call()?;
  match h {
    "rs_just" => {
      let k = args.first()?.int()?;
      Some(Arc::new(move |_| { let _t = &t; observables::just(V::int(k)) }))
    }
    "rs_err" => {
      let k = args.first()?.int()?;
      Some(Arc::new(move |_| { let _t = &t; observables::error(mk_err(k)) }))
    }
    "rs_ref" => {
      let o = refob(sh, args.first()?.atom()?)?;
      Some(Arc::new(move |_| { let _t = &t; o.clone() }))
    }
    "rs_iter" => {
      let vs = args.iter().map(parse_data).collect::<Option<Vec<_>>>()?;
      Some(Arc::new(move |_| { let _t = &t; observables::from_iter(vs.clone().into_iter()) }))
    }
    _ => None,
  }
}

pub fn to_material(v: V) -> Material<V> {
  match v.k {
    K::MN(d) => Material::Next(*d),
    K::ME(e) => Material::Error(e),
    K::MC => Material::Complete,
    _ => Material::Next(V::new(K::U)),
  }
}
pub fn from_material(m: Material<V>) -> V {
  match m {
    Material::Next(d) => V::new(K::MN(Box::new(d))),
    Material::Error(e) => V::new(K::ME(e)),
    Material::Complete => V::new(K::MC),
  }
}

pub fn pipes(sh: &Shared, es: &[Sexp]) -> Option<Vec<Ob>> {
  es.iter().map(|e| pipe(sh, e)).collect()
}

pub fn pipe(sh: &Shared, e: &Sexp) -> Option<Ob> {
  let (h, a) = e.call()?;
  let last = || a.last().and_then(|p| pipe(sh, p));
  Some(match (h, a.len()) {
    ("just", 1) => observables::just(parse_data(&a[0])?),
    ("from_iter", _) => observables::from_iter(a.iter().map(parse_data).collect::<Option<Vec<_>>>()?.into_iter()),
    // the same items through an iterator ADAPTOR (size_hint lower bound 0, not ExactSizeIterator, lazily evaluated)
    ("from_iter_lazy", _) => observables::from_iter(a.iter().map(parse_data).collect::<Option<Vec<_>>>()?.into_iter().filter(|_| true)),
    // ENDLESS iterators (from_iter / start_with pull from them only while the subscription lives)
    ("from_iter_endless", 1) => observables::from_iter(std::iter::repeat(parse_data(&a[0])?)),
    ("start_with_endless", 2) => last()?.start_with(std::iter::repeat(parse_data(&a[0])?)),
    ("range", 2) => observables::range(a[0].int()?, a[1].int()?).map(V::int),
    ("empty", 0) => observables::empty(),
    ("never", 0) => observables::never(),
    ("error", 1) => observables::error(mk_err(a[0].int()?)),
    ("repeat", 1) => observables::repeat(parse_data(&a[0])?),
    ("start", 1) => {
      let v = parse_data(&a[0])?;
      observables::start(move || v.clone())
    }
    ("defer", 1) => {
      let o = pipe(sh, &a[0])?;
      observables::defer(move || o.clone())
    }
    ("from_result_ok", 1) => observables::from_result::<V, EP>(Ok(parse_data(&a[0])?)),
    ("from_result_err", 1) => match a[0].int()? {
      id @ 1000..=1999 => observables::from_result::<V, RxError>(Err(RxError::from_error(EP { id }))),
      id @ 2000..=2999 => observables::from_result::<V, String>(Err(format!("payload-{}", id))),
      id @ 3000..=3999 => observables::from_result::<V, i64>(Err(id)),
      id => observables::from_result::<V, EP>(Err(EP { id })),
    },
    ("cold", _) => script_source(sh, a[0].nat()?, true, a[1..].iter().map(parse_ev).collect::<Option<Vec<_>>>()?),
    ("rude", _) => script_source(sh, a[0].nat()?, false, a[1..].iter().map(parse_ev).collect::<Option<Vec<_>>>()?),
    ("flaky", _) => {
      let counter = match sh.find(a[1].atom()?)? {
        Entry::Counter(c) => c,
        _ => return None,
      };
      let scripts = a[2..].iter().map(|s| s.list().and_then(|l| l.iter().map(parse_ev).collect::<Option<Vec<_>>>())).collect::<Option<Vec<_>>>()?;
      flaky_source(sh, a[0].nat()?, counter, scripts)
    }
    ("ref", 1) => refob(sh, a[0].atom()?)?,
    ("map", 2) => {
      let f = parse_fn(&a[0])?;
      last()?.map(move |x| f(x))
    }
    ("filter", 2) => {
      let f = parse_pred(&a[0])?;
      last()?.filter(move |x| f(x))
    }
    ("take", 2) => last()?.take(a[0].nat()?),
    ("skip", 2) => last()?.skip(a[0].nat()?),
    ("take_while", 2) => {
      let f = parse_pred(&a[0])?;
      last()?.take_while(move |x| f(x))
    }
    ("skip_while", 2) => {
      let f = parse_pred(&a[0])?;
      last()?.skip_while(move |x| f(x))
    }
    ("take_last", 2) => last()?.take_last(a[0].nat()?),
    ("skip_last", 2) => last()?.skip_last(a[0].nat()?),
    ("first", 1) => last()?.first(),
    ("last", 1) => last()?.last(),
    ("element_at", 2) => last()?.element_at(a[0].nat()?),
    ("distinct_until_changed", 1) => last()?.distinct_until_changed(),
    ("scan", 2) => {
      let f = parse_fn2(&a[0])?;
      last()?.scan(move |(x, y)| f(x, y))
    }
    ("reduce", 2) => {
      let f = parse_fn2(&a[0])?;
      last()?.reduce(move |(x, y)| f(x, y))
    }
    ("count", 1) => last()?.count().map(|n| V::int(n as i64)),
    ("sum", 1) => last()?.sum(),
    ("min", 1) => last()?.min(),
    ("max", 1) => last()?.max(),
    ("sum_and_count", 1) => last()?.sum_and_count().map(|(s, n)| V::new(K::P(Box::new(s), Box::new(V::int(n as i64))))),
    ("all", 2) => {
      let f = parse_pred(&a[0])?;
      last()?.all(move |x| f(x)).map(V::boolean)
    }
    ("contains", 2) => last()?.contains(parse_data(&a[0])?).map(V::boolean),
    ("default_if_empty", 2) => last()?.default_if_empty(parse_data(&a[0])?),
    // utils::ready_set_go: subscribe first, then run the action (here: calls on hot sources of the case)
    ("rsg", 2) => {
      let acts = a[0].list()?.iter().map(|x| subject_action(sh, x)).collect::<Option<Vec<Action>>>()?;
      let o = pipe(sh, &a[1])?;
      utils::ready_set_go(
        move || {
          for act in acts.iter() {
            act(0);
          }
        },
        o,
      )
    }
    ("ignore_elements", 1) => last()?.ignore_elements(),
    // time stamps / durations are not modelled: the stamp is dropped, a duration becomes `()`
    ("timestamp", 1) => last()?.timestamp().map(|(_, x)| x),
    ("time_interval", 1) => last()?.time_interval().map(|_| V::new(K::U)),
    ("start_with", 2) => {
      let (h, vs) = a[0].call()?;
      if h != "l" {
        return None;
      }
      let vs = vs.iter().map(parse_data).collect::<Option<Vec<_>>>()?;
      last()?.start_with(vs.into_iter())
    }
    ("buffer_with_count", 2) => last()?.buffer_with_count(a[0].nat()?).map(V::list),
    ("materialize", 1) => last()?.materialize().map(from_material),
    ("dematerialize", 1) => last()?.map(to_material).dematerialize(),
    ("map_to_any", 1) => last()?.map_to_any().map(|x| x.downcast_ref::<V>().cloned().unwrap_or(V::new(K::U))),
    ("tap", 2) => {
      let tag = a[0].nat()?;
      let (s1, s2, s3) = (sh.clone(), sh.clone(), sh.clone());
      last()?.tap(
        move |x: V| s1.rec(format!("t{}:n{}", tag, x.show())),
        move |e| s2.rec(format!("t{}:e{}", tag, err_id(&e))),
        move || s3.rec(format!("t{}:c", tag)),
      )
    }
    // a tap whose item / error side effect ENDS subscription K (a user closure between two operators that ends the
    // subscription while the event is in flight: the operators downstream of it act for a subscription that is over)
    ("tap_unsub", 3) => {
      let tag = a[0].nat()?;
      let k = a[1].nat()?;
      let (s1, s2, s3) = (sh.clone(), sh.clone(), sh.clone());
      last()?.tap(
        move |x: V| {
          s1.rec(format!("t{}:n{}", tag, x.show()));
          user_unsub(&s1, k);
        },
        move |e| {
          s2.rec(format!("t{}:e{}", tag, err_id(&e)));
          user_unsub(&s2, k);
        },
        move || s3.rec(format!("t{}:c", tag)),
      )
    }
    ("merge", _) => pipe(sh, &a[0])?.merge(&pipes(sh, &a[1..])?),
    ("concat", _) => pipe(sh, &a[0])?.concat(&pipes(sh, &a[1..])?),
    ("zip", _) => pipe(sh, &a[0])?.zip(&pipes(sh, &a[1..])?).map(V::list),
    ("amb", _) => pipe(sh, &a[0])?.amb(&pipes(sh, &a[1..])?),
    ("combine_latest", _) => {
      let f = parse_fn2(&a[0])?;
      pipe(sh, &a[1])?.combine_latest(&pipes(sh, &a[2..])?, move |xs: Vec<V>| {
        let mut it = xs.into_iter();
        let first = it.next().unwrap_or(V::new(K::U));
        it.fold(first, |acc, x| f(acc, x))
      })
    }
    ("sequence_equal", _) => pipe(sh, &a[0])?.sequence_equal(&pipes(sh, &a[1..])?).map(V::boolean),
    ("take_until", 2) => pipe(sh, &a[0])?.take_until(pipe(sh, &a[1])?),
    ("skip_until", 2) => pipe(sh, &a[0])?.skip_until(pipe(sh, &a[1])?),
    ("sample", 2) => pipe(sh, &a[0])?.sample(pipe(sh, &a[1])?),
    ("switch_on_next", 2) => pipe(sh, &a[0])?.switch_on_next(pipe(sh, &a[1])?),
    ("flat_map", 2) => {
      let f = parse_fm(sh, &a[0])?;
      last()?.flat_map(move |x| f(x))
    }
    ("retry", 2) => last()?.retry(a[0].nat()?),
    ("retry_when", 2) => {
      let f = parse_epred(&a[0])?;
      last()?.retry_when(move |e| f(e))
    }
    ("on_error_resume_next", 2) => {
      let f = parse_rs(sh, &a[0])?;
      last()?.on_error_resume_next(move |e| f(e))
    }
    // the closure GIVEN TO the operator ends subscription K when it is called, then answers as usual: the operator
    // goes on (attaches the inner / next attempt / replacement) for a subscription that ended inside its own closure
    ("flat_map_u", 3) => {
      let k = a[0].nat()?;
      let f = parse_fm(sh, &a[1])?;
      let sh2 = sh.clone();
      last()?.flat_map(move |x| {
        user_unsub(&sh2, k);
        f(x)
      })
    }
    ("retry_when_u", 3) => {
      let k = a[0].nat()?;
      let f = parse_epred(&a[1])?;
      let sh2 = sh.clone();
      last()?.retry_when(move |e| {
        user_unsub(&sh2, k);
        f(e)
      })
    }
    ("on_error_resume_next_u", 3) => {
      let k = a[0].nat()?;
      let f = parse_rs(sh, &a[1])?;
      let sh2 = sh.clone();
      last()?.on_error_resume_next(move |e| {
        user_unsub(&sh2, k);
        f(e)
      })
    }
    // ---- threaded / timed operators (concurrent harness only; time is the facade's virtual clock) ----
    ("tsrc", _) => {
      let tag = a[0].nat()?;
      let script = a[1..]
        .iter()
        .map(|it| {
          let l = it.list()?;
          Some((l.first()?.nat()? as u64, parse_ev(l.get(1)?)?))
        })
        .collect::<Option<Vec<_>>>()?;
      threaded_source(sh, tag, script)
    }
    // a SYNCHRONOUS slow source: emits inside `subscribe`, on the subscribing thread, sleeping before each event
    ("slow", _) => {
      let tag = a[0].nat()?;
      let script = a[1..]
        .iter()
        .map(|it| {
          let l = it.list()?;
          Some((l.first()?.nat()? as u64, parse_ev(l.get(1)?)?))
        })
        .collect::<Option<Vec<_>>>()?;
      let sh2 = sh.clone();
      Observable::create(move |s: Observer<'static, V>| {
        sh2.rec(format!("x{}+", tag));
        for (gap, ev) in script.iter() {
          if *gap > 0 {
            vthread::sleep(std::time::Duration::from_millis(*gap));
          }
          if !s.is_subscribed() {
            break;
          }
          emit_ev(&s, ev);
        }
      })
    }
    // the scheduler-based operators and sources over the DEFAULT scheduler (post runs the task inline: C08's last
    // clause) are sequential and deterministic: they are part of the sequential case language and of model A
    ("observe_on_d", 1) => last()?.observe_on(schedulers::default_scheduler()),
    ("subscribe_on_d", 1) => last()?.subscribe_on(schedulers::default_scheduler()),
    ("interval_d", 0) => observables::interval(std::time::Duration::from_millis(0), schedulers::default_scheduler()).map(|n| V::int(n as i64)),
    ("timer_d", 0) => observables::timer(std::time::Duration::from_millis(0), schedulers::default_scheduler()).map(|_| V::new(K::U)),
    ("delay0", 1) => last()?.delay(std::time::Duration::from_millis(0)),
    ("observe_on", 1) => last()?.observe_on(schedulers::new_thread_scheduler()),
    ("subscribe_on", 1) => last()?.subscribe_on(schedulers::new_thread_scheduler()),
    ("interval", 1) => observables::interval(std::time::Duration::from_millis(a[0].nat()? as u64), schedulers::new_thread_scheduler()).map(|n| V::int(n as i64)),
    ("timer", 1) => observables::timer(std::time::Duration::from_millis(a[0].nat()? as u64), schedulers::new_thread_scheduler()).map(|_| V::new(K::U)),
    ("delay", 2) => last()?.delay(std::time::Duration::from_millis(a[0].nat()? as u64)),
    ("timeout", 2) => last()?.timeout(std::time::Duration::from_millis(a[0].nat()? as u64), schedulers::new_thread_scheduler()),
    ("debounce", 2) => last()?.debounce(std::time::Duration::from_millis(a[0].nat()? as u64), schedulers::new_thread_scheduler()),
    ("window_with_count", 2) => last()?.window_with_count(a[0].nat()?).map(|o| V::new(K::O(o))),
    ("group_by", 2) => {
      let f = parse_fn(&a[0])?;
      last()?.group_by(move |x| f(x).to_int()).map(|o| V::new(K::O(o)))
    }
    _ => return None,
  })
}

// ---------------------------------------------------------------------------------------------
// users and reactions

pub fn subject_action(sh: &Shared, e: &Sexp) -> Option<Action> {
  let (h, a) = e.call()?;
  let ent = sh.find(a.first()?.atom()?)?;
  if let Entry::RawHot(obs, _) = &ent {
    let obs = obs.clone();
    let snapshot = move || -> Vec<Observer<'static, V>> { obs.lock().unwrap_or_else(|e| e.into_inner()).clone() };
    return match h {
      "rnext" => {
        let v = parse_data(a.get(1)?)?;
        Some(Arc::new(move |_| {
          for o in snapshot() {
            o.next(v.clone());
          }
        }))
      }
      "rerror" => {
        let id = a.get(1)?.int()?;
        Some(Arc::new(move |_| {
          for o in snapshot() {
            o.error(mk_err(id));
          }
        }))
      }
      "rcomplete" => Some(Arc::new(move |_| {
        for o in snapshot() {
          o.complete();
        }
      })),
      _ => None,
    };
  }
  match h {
    "hnext" => {
      let v = parse_data(a.get(1)?)?;
      Some(Arc::new(move |_| match &ent {
        Entry::Subj(s) => s.next(v.clone()),
        Entry::BSubj(s) => s.next(v.clone()),
        Entry::RSubj(s) => s.next(v.clone()),
        Entry::ASubj(s) => s.next(v.clone()),
        _ => {}
      }))
    }
    "hcomplete" => Some(Arc::new(move |_| match &ent {
      Entry::Subj(s) => s.complete(),
      Entry::BSubj(s) => s.complete(),
      Entry::RSubj(s) => s.complete(),
      Entry::ASubj(s) => s.complete(),
      _ => {}
    })),
    "herror" => {
      let id = a.get(1)?.int()?;
      Some(Arc::new(move |_| match &ent {
        Entry::Subj(s) => s.error(mk_err(id)),
        Entry::BSubj(s) => s.error(mk_err(id)),
        Entry::RSubj(s) => s.error(mk_err(id)),
        Entry::ASubj(s) => s.error(mk_err(id)),
        _ => {}
      }))
    }
    _ => None,
  }
}

pub fn user_unsub(sh: &Shared, s: usize) {
  let sub = sh.lock().users.get(s).and_then(|u| u.sub.clone());
  if let Some(sub) = sub {
    sub.unsubscribe();
  }
}

/// ends subscription `s` by dropping a `utils::Using` guard around it — at the end of a scope, or
/// (`unwind`) while a panic unwinds through that scope
pub fn user_unsub_using(sh: &Shared, s: usize, unwind: bool) {
  let sub = sh.lock().users.get(s).and_then(|u| u.sub.clone());
  if let Some(sub) = sub {
    if unwind {
      let _ = std::panic::catch_unwind(std::panic::AssertUnwindSafe(move || {
        let _guard = utils::Using::new(sub);
        panic!("verif: unwinding through a Using guard");
      }));
    } else {
      let guard = utils::Using::new(sub);
      drop(guard);
    }
  }
}

pub fn parse_action(sh: &Shared, e: &Sexp) -> Option<Action> {
  if e.atom() == Some("unsub") {
    let sh = sh.clone();
    return Some(Arc::new(move |me| user_unsub(&sh, me)));
  }
  let (h, a) = e.call()?;
  if h == "unsub" {
    let s = a.first()?.nat()?;
    let sh = sh.clone();
    return Some(Arc::new(move |_| user_unsub(&sh, s)));
  }
  if h == "sleep" {
    // a slow consumer: the callback blocks its caller for K ms (virtual time in the concurrent harness)
    let k = a.first()?.nat()? as u64;
    return Some(Arc::new(move |_| vthread::sleep(std::time::Duration::from_millis(k))));
  }
  if h == "sub" {
    // re-entrant arrival: a new subscriber (without reactions of its own) subscribes to PIPE from inside the callback
    let o = pipe(sh, a.first()?)?;
    let sh = sh.clone();
    return Some(Arc::new(move |_| user_subscribe(&sh, &o, Vec::new())));
  }
  subject_action(sh, e)
}

pub fn parse_react(sh: &Shared, e: &Sexp) -> Option<Vec<(usize, Action)>> {
  let (h, items) = e.call()?;
  if h != "react" {
    return None;
  }
  items
    .iter()
    .map(|it| {
      let l = it.list()?;
      Some((l.first()?.nat()?, parse_action(sh, l.get(1)?)?))
    })
    .collect()
}

pub fn user_subscribe(sh: &Shared, o: &Ob, react: Vec<(usize, Action)>) {
  let me = {
    let mut g = sh.lock();
    g.users.push(User { sub: None, events: 0 });
    g.users.len() - 1
  };
  let react = Arc::new(react);
  let tok = Tok::new(USER);
  let on_event = {
    let sh = sh.clone();
    let react = react.clone();
    Arc::new(move |text: String, child: Option<Ob>| {
      let _t = &tok;
      let (idx, hook, line) = {
        let mut g = sh.lock();
        let line = format!("s{}:{}", me, text);
        g.trace.push(line.clone());
        let idx = g.users[me].events;
        g.users[me].events += 1;
        (idx, g.hook.clone(), line)
      };
      if let Some(h) = hook {
        h(&line);
      }
      if let Some(c) = child {
        user_subscribe(&sh, &c, Vec::new());
      }
      for (i, act) in react.iter() {
        if *i == idx {
          act(me);
        }
      }
      // concurrent mode only: the callback is about to return
      let hook = sh.lock().hook.clone();
      if let Some(h) = hook {
        h(&format!("r{}", me));
      }
    })
  };
  let (e1, e2, e3) = (on_event.clone(), on_event.clone(), on_event.clone());
  drop(on_event);
  let sub = o.subscribe(
    move |v: V| {
      let child = match &v.k {
        K::O(o) => Some(o.clone()),
        _ => None,
      };
      e1(format!("n{}", v.show()), child)
    },
    move |e: RxError| e2(format!("e{}", err_id(&e)), None),
    move || e3("c".to_string(), None),
  );
  sh.lock().users[me].sub = Some(sub);
}

// ---------------------------------------------------------------------------------------------
// steps

pub fn step(sh: &Shared, e: &Sexp) -> Option<()> {
  let (h, a) = e.call()?;
  match h {
    "subject" => {
      let name = a[0].atom()?.to_string();
      let ent = match a[1].atom()? {
        "plain" => Entry::Subj(subjects::Subject::new()),
        "async" => Entry::ASubj(subjects::AsyncSubject::new()),
        "behavior" => Entry::BSubj(subjects::BehaviorSubject::new(parse_data(a.get(2)?)?)),
        "replay" => Entry::RSubj(subjects::ReplaySubject::new()),
        _ => return None,
      };
      sh.lock().env.push((name, ent));
    }
    "rawhot" => {
      let name = a[0].atom()?.to_string();
      let obs: Arc<Mutex<Vec<Observer<'static, V>>>> = Arc::new(Mutex::new(Vec::new()));
      let obs2 = obs.clone();
      let o: Ob = Observable::create(move |s: Observer<'static, V>| {
        obs2.lock().unwrap_or_else(|e| e.into_inner()).push(s);
      });
      sh.lock().env.push((name, Entry::RawHot(obs, o)));
    }
    "counter" => {
      let name = a[0].atom()?.to_string();
      sh.lock().env.push((name, Entry::Counter(Arc::new(Mutex::new(0)))));
    }
    "def" => {
      let name = a[0].atom()?.to_string();
      let o = pipe(sh, &a[1])?;
      sh.lock().env.push((name, Entry::Obsv(o)));
    }
    "conn" => {
      let name = a[0].atom()?.to_string();
      let o = pipe(sh, &a[2])?;
      let ent = match a[1].atom()? {
        "publish" => Entry::Publish(Arc::new(o.publish()), Arc::new(Mutex::new(Vec::new()))),
        "ref_count" => Entry::RefCount(Arc::new(o.ref_count())),
        "replay" => Entry::Replay(Arc::new(o.replay())),
        _ => return None,
      };
      sh.lock().env.push((name, ent));
    }
    "sub" => {
      let o = pipe(sh, &a[0])?;
      let r = parse_react(sh, &a[1])?;
      user_subscribe(sh, &o, r);
    }
    "unsub" => match a.get(1).and_then(|m| m.atom()) {
      None => user_unsub(sh, a[0].nat()?),
      Some("using") => user_unsub_using(sh, a[0].nat()?, false),
      Some("unwind") => user_unsub_using(sh, a[0].nat()?, true),
      _ => return None,
    },
    // C05: SEVERAL handles (clones, a Using guard) of ONE Subscription built with the public constructor: its teardown
    // closure runs at most once however many handles are unsubscribed; is_subscribed is shared by all handles
    "subhandles" => {
      let n = a[0].nat()?;
      let calls = Arc::new(Mutex::new(0i64));
      let alive = Arc::new(Mutex::new(true));
      let (c2, a2, a3) = (calls.clone(), alive.clone(), alive.clone());
      let sub = Subscription::new(
        move || {
          *c2.lock().unwrap() += 1;
          *a2.lock().unwrap() = false;
        },
        move || *a3.lock().unwrap(),
      );
      let handles: Vec<_> = (0..n).map(|_| sub.clone()).collect();
      sh.rec(format!("x200:{}", if sub.is_subscribed() { 1 } else { 0 }));
      for (i, h) in handles.into_iter().enumerate() {
        if i % 2 == 0 {
          h.unsubscribe();
        } else {
          drop(utils::Using::new(h));
        }
        sh.rec(format!("x201:{}", *calls.lock().unwrap()));
      }
      sub.unsubscribe();
      sh.rec(format!("x201:{}", *calls.lock().unwrap()));
      sh.rec(format!("x200:{}", if sub.is_subscribed() { 1 } else { 0 }));
    }
    // C08, last clause: the default scheduler runs the task synchronously in `post` (same thread, before post returns)
    "dpost" => {
      use another_rxrust::schedulers::scheduler::IScheduler;
      let n = a[0].nat()?;
      let s = schedulers::default_scheduler()();
      let me = std::thread::current().id();
      for i in 0..n {
        let sh2 = sh.clone();
        s.post(move || {
          sh2.rec(format!("x{}:{}", 100 + i, if std::thread::current().id() == me { 1 } else { 0 }));
        });
        sh.rec(format!("x{}:2", 100 + i));
      }
      s.abort();
    }
    "connect" => match sh.find(a[0].atom()?)? {
      Entry::Publish(p, conns) => {
        let c = p.connect();
        conns.lock().unwrap_or_else(|e| e.into_inner()).push(c);
      }
      _ => return None,
    },
    "disconnect" => match sh.find(a[0].atom()?)? {
      Entry::Publish(_, conns) => {
        let cs: Vec<_> = conns.lock().unwrap_or_else(|e| e.into_inner()).clone();
        for c in cs {
          c.unsubscribe();
        }
      }
      _ => return None,
    },
    // the caller lets go of ONE named handle (a connectable, an observable, a subject) and keeps its Subscriptions
    "forget" => {
      let name = a[0].atom()?.to_string();
      let gone: Vec<(String, Entry)> = {
        let mut g = sh.lock();
        let (gone, keep): (Vec<_>, Vec<_>) = std::mem::take(&mut g.env).into_iter().partition(|(n, _)| *n == name);
        g.env = keep;
        gone
      };
      drop(gone);
    }
    "drop" => {
      let (env, users, stash) = {
        let mut g = sh.lock();
        (std::mem::take(&mut g.env), std::mem::take(&mut g.users), std::mem::take(&mut g.stash))
      };
      drop(env);
      drop(stash);
      // keep the user slots (ids stay valid) but let go of the handles
      let n = users.len();
      drop(users);
      let mut g = sh.lock();
      for _ in 0..n {
        g.users.push(User { sub: None, events: 0 });
      }
    }
    "hnext" | "hcomplete" | "herror" | "rnext" | "rerror" | "rcomplete" => {
      let act = subject_action(sh, e)?;
      act(0);
    }
    _ => return None,
  }
  Some(())
}

pub fn observe(sh: &Shared, before: usize, status: &str, dropped: bool) -> String {
  let (recs, subs, stash, env) = {
    let g = sh.lock();
    (
      g.trace[before.min(g.trace.len())..].to_vec(),
      g.users.iter().map(|u| u.sub.clone()).collect::<Vec<_>>(),
      g.stash.clone(),
      g.env.clone(),
    )
  };
  let ok = status == "ok";
  let flag = |b: bool| if b { "T" } else { "F" };
  let s: String = if ok { subs.iter().map(|s| flag(s.as_ref().map(|s| s.is_subscribed()).unwrap_or(false))).collect() } else { String::new() };
  let l: String = if ok { stash.iter().map(|o| flag(o.is_subscribed())).collect() } else { String::new() };
  let o: Vec<String> = if ok { env.iter().filter_map(|(_, e)| e.observer_count()).map(|n| n.to_string()).collect() } else { Vec::new() };
  let mut line = format!("{} ; S={} L={} O={} st={}", recs.join(" "), s, l, o.join(","), status);
  if dropped {
    line.push_str(&format!(" #tok u={} o={} i={}", live(USER), live(OP), live(ITEM)));
  }
  line
}

