//! Sequential correspondence harness: executes cases of the shared case language (DESIGN §3.4)
//! against the instrumented copy of /repo's current working tree and prints one canonical
//! observation line per case — the same format `rxmodel` (Lean) prints.
mod core;
mod sexp;
mod value;

use another_rxrust::verif_facade as facade;
use crate::core::*;
use std::io::{BufRead, Write};
use std::panic::{catch_unwind, AssertUnwindSafe};
use value::*;

fn run_case(line: &str, budget: u64) -> String {
  let e = match sexp::parse(line) {
    Some(e) => e,
    None => return format!("PARSE-ERROR {}", line),
  };
  let l = match e.list() {
    Some(l) if l.len() >= 2 && l[0].atom() == Some("case") => l.to_vec(),
    _ => return format!("PARSE-ERROR {}", line),
  };
  let id = l[1].atom().unwrap_or("?").to_string();
  reset_live();
  let sh = Shared::new();
  set_current(Some(sh.clone()));
  let mut out: Vec<String> = Vec::new();
  for st in l[2..].iter() {
    let before = sh.lock().trace.len();
    facade::reset(budget);
    let r = catch_unwind(AssertUnwindSafe(|| step(&sh, st)));
    facade::reset(0);
    let status = match &r {
      Ok(Some(())) => "ok".to_string(),
      Ok(None) => {
        out.push(format!("PARSE-ERROR {}", st));
        break;
      }
      Err(p) => {
        let msg = p.downcast_ref::<&str>().map(|s| s.to_string()).or(p.downcast_ref::<String>().cloned()).unwrap_or_default();
        if msg.contains("verif-self-deadlock") {
          "deadlock".to_string()
        } else if msg.contains("verif-budget") {
          "budget".to_string()
        } else {
          "panic".to_string()
        }
      }
    };
    let dropped = st.call().map(|(h, _)| h == "drop").unwrap_or(false);
    out.push(observe(&sh, before, &status, dropped));
    if status != "ok" {
      break;
    }
  }
  // leak what is left of a failed case instead of running destructors over poisoned state
  if out.last().map(|l| !l.ends_with("st=ok") && !l.contains("st=ok #tok")).unwrap_or(false) {
    std::mem::forget(sh);
  }
  set_current(None);
  format!("{} | {}", id, out.join(" | "))
}

fn main() {
  real_main();
}

fn real_main() {
  std::panic::set_hook(Box::new(|_| {}));
  let budget: u64 = std::env::var("RXH_BUDGET").ok().and_then(|s| s.parse().ok()).unwrap_or(200_000);
  let hang_ms: u64 = std::env::var("RXH_HANG_MS").ok().and_then(|s| s.parse().ok()).unwrap_or(2_500);
  let stdin = std::io::stdin();
  let stdout = std::io::stdout();
  let mut out = stdout.lock();
  for line in stdin.lock().lines() {
    let line = match line {
      Ok(l) => l,
      Err(_) => break,
    };
    let line = line.trim().to_string();
    if line.is_empty() {
      continue;
    }
    // every case runs on a thread of its own: deep synchronous recursion (retry over a failing cold source, re-entrant
    // emits) must hit the operation budget, not the end of the stack; and a case that BLOCKS on something the facade
    // does not instrument (std::sync::Once, a channel, a real sleep) is given up after `hang_ms` and reported as
    // `st=hang` - its thread is left behind, the next case starts on a fresh one
    let (tx, rx) = std::sync::mpsc::channel::<String>();
    let l2 = line.clone();
    let t = std::thread::Builder::new().stack_size(4 << 30).spawn(move || {
      let r = run_case(&l2, budget);
      let _ = tx.send(r);
    });
    let r = match t {
      Ok(h) => match rx.recv_timeout(std::time::Duration::from_millis(hang_ms)) {
        Ok(r) => {
          let _ = h.join();
          r
        }
        Err(_) => {
          let id = line.split_whitespace().nth(1).unwrap_or("?").trim_end_matches(')').to_string();
          format!("{} |  ; S= L= O= st=hang", id)
        }
      },
      Err(_) => run_case(&line, budget),
    };
    let _ = writeln!(out, "{}", r);
    let _ = out.flush();
  }
}
