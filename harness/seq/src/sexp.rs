#[derive(Clone, Debug)]
pub enum Sexp {
  Atom(String),
  List(Vec<Sexp>),
}

impl Sexp {
  pub fn atom(&self) -> Option<&str> {
    match self {
      Sexp::Atom(s) => Some(s.as_str()),
      _ => None,
    }
  }
  pub fn list(&self) -> Option<&[Sexp]> {
    match self {
      Sexp::List(v) => Some(v.as_slice()),
      _ => None,
    }
  }
  pub fn int(&self) -> Option<i64> {
    self.atom().and_then(|s| s.parse::<i64>().ok())
  }
  pub fn nat(&self) -> Option<usize> {
    self.atom().and_then(|s| s.parse::<usize>().ok())
  }
  /// (head args...) -> (head, args)
  pub fn call(&self) -> Option<(&str, &[Sexp])> {
    let l = self.list()?;
    let h = l.first()?.atom()?;
    Some((h, &l[1..]))
  }
}

impl std::fmt::Display for Sexp {
  fn fmt(&self, f: &mut std::fmt::Formatter<'_>) -> std::fmt::Result {
    match self {
      Sexp::Atom(s) => write!(f, "{}", s),
      Sexp::List(v) => {
        write!(f, "(")?;
        for (i, x) in v.iter().enumerate() {
          if i > 0 {
            write!(f, " ")?;
          }
          write!(f, "{}", x)?;
        }
        write!(f, ")")
      }
    }
  }
}

pub fn parse(s: &str) -> Option<Sexp> {
  let mut toks: Vec<String> = Vec::new();
  let mut cur = String::new();
  for c in s.chars() {
    if c == '(' || c == ')' {
      if !cur.is_empty() {
        toks.push(std::mem::take(&mut cur));
      }
      toks.push(c.to_string());
    } else if c.is_whitespace() {
      if !cur.is_empty() {
        toks.push(std::mem::take(&mut cur));
      }
    } else {
      cur.push(c);
    }
  }
  if !cur.is_empty() {
    toks.push(cur);
  }
  let mut pos = 0;
  let e = parse_tokens(&toks, &mut pos)?;
  if pos == toks.len() {
    Some(e)
  } else {
    None
  }
}

fn parse_tokens(toks: &[String], pos: &mut usize) -> Option<Sexp> {
  let t = toks.get(*pos)?;
  *pos += 1;
  if t == "(" {
    let mut items = Vec::new();
    loop {
      let n = toks.get(*pos)?;
      if n == ")" {
        *pos += 1;
        return Some(Sexp::List(items));
      }
      items.push(parse_tokens(toks, pos)?);
    }
  } else if t == ")" {
    None
  } else {
    Some(Sexp::Atom(t.clone()))
  }
}
