// ---- appended by /verif/tools/instrument.py: facade over shuttle (concurrent mode) ---------------
// Every `std::` path of the crate's sources is redirected to `crate::verif_std::`.  In this mode
// RwLock / Mutex / Condvar / thread::spawn / thread::sleep are thin wrappers over the `shuttle` crate:
// deterministic, seed-replayable schedules with a scheduling point at every lock operation, deadlock
// detection, a virtual clock (sleep), and a log of lock-level events.  Everything else is std.
#[allow(dead_code)]
pub mod verif_std {
  pub use std::*;
  pub mod collections {
    pub use std::collections::*;
    pub use super::super::verif_facade::HashMap;
  }
  pub mod sync {
    pub use std::sync::*;
    pub use super::super::verif_facade::{Condvar, Mutex, MutexGuard, RwLock, RwLockReadGuard, RwLockWriteGuard};
  }
  pub mod thread {
    pub use std::thread::*;
    pub use super::super::verif_facade::{sleep, spawn};
  }
  /// `Instant` on the VIRTUAL clock (what `thread::sleep` advances): code that measures elapsed time sees the same
  /// time as code that sleeps.  `SystemTime` stays real (only `timestamp` uses it; its values are not compared).
  pub mod time {
    pub use std::time::*;
    use std::ops::{Add, AddAssign, Sub, SubAssign};
    #[derive(Clone, Copy, PartialEq, Eq, PartialOrd, Ord, Hash, Debug)]
    pub struct Instant(u64);
    impl Instant {
      pub fn now() -> Instant { Instant(super::super::verif_facade::now()) }
      pub fn elapsed(&self) -> Duration { Instant::now().saturating_duration_since(*self) }
      pub fn duration_since(&self, earlier: Instant) -> Duration { self.saturating_duration_since(earlier) }
      pub fn saturating_duration_since(&self, earlier: Instant) -> Duration { Duration::from_millis(self.0.saturating_sub(earlier.0)) }
      pub fn checked_duration_since(&self, earlier: Instant) -> Option<Duration> { self.0.checked_sub(earlier.0).map(Duration::from_millis) }
      pub fn checked_add(&self, d: Duration) -> Option<Instant> { self.0.checked_add(d.as_millis() as u64).map(Instant) }
      pub fn checked_sub(&self, d: Duration) -> Option<Instant> { self.0.checked_sub(d.as_millis() as u64).map(Instant) }
    }
    impl Add<Duration> for Instant { type Output = Instant; fn add(self, d: Duration) -> Instant { Instant(self.0 + d.as_millis() as u64) } }
    impl Sub<Duration> for Instant { type Output = Instant; fn sub(self, d: Duration) -> Instant { Instant(self.0.saturating_sub(d.as_millis() as u64)) } }
    impl Sub<Instant> for Instant { type Output = Duration; fn sub(self, o: Instant) -> Duration { self.saturating_duration_since(o) } }
    impl AddAssign<Duration> for Instant { fn add_assign(&mut self, d: Duration) { self.0 += d.as_millis() as u64; } }
    impl SubAssign<Duration> for Instant { fn sub_assign(&mut self, d: Duration) { self.0 = self.0.saturating_sub(d.as_millis() as u64); } }
  }
}

#[allow(dead_code)]
pub mod verif_facade {
  use std::ops::{Deref, DerefMut};
  use std::panic::Location;
  use std::sync::atomic::{AtomicUsize, Ordering};
  use std::sync::{LockResult, PoisonError};
  use std::time::Duration;

  // ---- event log (OS-level mutex, never held across a scheduling point) -----------------------
  #[derive(Clone, Debug)]
  pub struct Event {
    pub tid: usize,
    pub kind: &'static str,
    pub obj: usize,
    pub site: String,
    pub payload: String,
  }
  static EVENTS: std::sync::Mutex<Vec<Event>> = std::sync::Mutex::new(Vec::new());
  static NEXT_ID: AtomicUsize = AtomicUsize::new(1);
  static LOGGING: AtomicUsize = AtomicUsize::new(1);

  pub fn tid() -> usize {
    match shuttle::current::get_current_task() {
      Some(t) => usize::from(t),
      None => 0,
    }
  }
  pub fn log(kind: &'static str, obj: usize, site: &str, payload: String) {
    if LOGGING.load(Ordering::Relaxed) == 0 {
      return;
    }
    let e = Event { tid: tid(), kind, obj, site: site.to_string(), payload };
    EVENTS.lock().unwrap_or_else(PoisonError::into_inner).push(e);
  }
  pub fn set_logging(on: bool) {
    LOGGING.store(if on { 1 } else { 0 }, Ordering::Relaxed);
  }
  pub fn take_events() -> Vec<Event> {
    std::mem::take(&mut *EVENTS.lock().unwrap_or_else(PoisonError::into_inner))
  }
  /// call at the start of every execution
  pub fn reset() {
    EVENTS.lock().unwrap_or_else(PoisonError::into_inner).clear();
    NEXT_ID.store(1, Ordering::SeqCst);
    *CLOCK.lock().unwrap_or_else(PoisonError::into_inner) = ClockState::default();
    reset_clock_sync();
  }
  fn site(l: &'static Location<'static>) -> String {
    let f = l.file();
    let stem = f.rsplit('/').next().unwrap_or(f).trim_end_matches(".rs");
    format!("{}:{}", stem, l.line())
  }

  // ---- RwLock ------------------------------------------------------------------------------------
  pub struct RwLock<T> {
    inner: shuttle::sync::RwLock<T>,
    id: usize,
    site: String,
  }
  pub struct RwLockReadGuard<'a, T> {
    g: Option<shuttle::sync::RwLockReadGuard<'a, T>>,
    id: usize,
    site: &'a str,
  }
  pub struct RwLockWriteGuard<'a, T> {
    g: Option<shuttle::sync::RwLockWriteGuard<'a, T>>,
    id: usize,
    site: &'a str,
  }
  impl<T> RwLock<T> {
    #[track_caller]
    pub fn new(t: T) -> RwLock<T> {
      RwLock { inner: shuttle::sync::RwLock::new(t), id: NEXT_ID.fetch_add(1, Ordering::Relaxed), site: site(Location::caller()) }
    }
    pub fn read(&self) -> LockResult<RwLockReadGuard<'_, T>> {
      let g = self.inner.read().unwrap_or_else(PoisonError::into_inner);
      log("acq_r", self.id, &self.site, String::new());
      Ok(RwLockReadGuard { g: Some(g), id: self.id, site: &self.site })
    }
    pub fn write(&self) -> LockResult<RwLockWriteGuard<'_, T>> {
      let g = self.inner.write().unwrap_or_else(PoisonError::into_inner);
      log("acq_w", self.id, &self.site, String::new());
      Ok(RwLockWriteGuard { g: Some(g), id: self.id, site: &self.site })
    }
  }
  impl<'a, T> Deref for RwLockReadGuard<'a, T> {
    type Target = T;
    fn deref(&self) -> &T {
      self.g.as_ref().unwrap()
    }
  }
  impl<'a, T> Deref for RwLockWriteGuard<'a, T> {
    type Target = T;
    fn deref(&self) -> &T {
      self.g.as_ref().unwrap()
    }
  }
  impl<'a, T> DerefMut for RwLockWriteGuard<'a, T> {
    fn deref_mut(&mut self) -> &mut T {
      self.g.as_mut().unwrap()
    }
  }
  impl<'a, T> Drop for RwLockReadGuard<'a, T> {
    fn drop(&mut self) {
      log("rel", self.id, self.site, String::new());
      self.g.take();
    }
  }
  impl<'a, T> Drop for RwLockWriteGuard<'a, T> {
    fn drop(&mut self) {
      log("rel", self.id, self.site, String::new());
      self.g.take();
    }
  }

  // ---- Mutex / Condvar ----------------------------------------------------------------------------
  pub struct Mutex<T> {
    inner: shuttle::sync::Mutex<T>,
    id: usize,
    site: String,
  }
  pub struct MutexGuard<'a, T> {
    g: Option<shuttle::sync::MutexGuard<'a, T>>,
    id: usize,
    site: &'a str,
  }
  impl<T> Mutex<T> {
    #[track_caller]
    pub fn new(t: T) -> Mutex<T> {
      Mutex { inner: shuttle::sync::Mutex::new(t), id: NEXT_ID.fetch_add(1, Ordering::Relaxed), site: site(Location::caller()) }
    }
    pub fn lock(&self) -> LockResult<MutexGuard<'_, T>> {
      let g = self.inner.lock().unwrap_or_else(PoisonError::into_inner);
      log("lock", self.id, &self.site, String::new());
      Ok(MutexGuard { g: Some(g), id: self.id, site: &self.site })
    }
  }
  impl<'a, T> Deref for MutexGuard<'a, T> {
    type Target = T;
    fn deref(&self) -> &T {
      self.g.as_ref().unwrap()
    }
  }
  impl<'a, T> DerefMut for MutexGuard<'a, T> {
    fn deref_mut(&mut self) -> &mut T {
      self.g.as_mut().unwrap()
    }
  }
  impl<'a, T> Drop for MutexGuard<'a, T> {
    fn drop(&mut self) {
      if self.g.is_some() {
        log("unlock", self.id, self.site, String::new());
      }
      self.g.take();
    }
  }

  pub struct Condvar {
    inner: shuttle::sync::Condvar,
    id: usize,
    site: String,
  }
  impl Condvar {
    #[track_caller]
    pub fn new() -> Condvar {
      Condvar { inner: shuttle::sync::Condvar::new(), id: NEXT_ID.fetch_add(1, Ordering::Relaxed), site: site(Location::caller()) }
    }
    /// std semantics spelled out so that every evaluation of the condition, every park and every
    /// wake-up is visible in the event log
    pub fn wait_while<'a, T, F>(&self, mut guard: MutexGuard<'a, T>, mut condition: F) -> LockResult<MutexGuard<'a, T>>
    where
      F: FnMut(&mut T) -> bool,
    {
      loop {
        let c = condition(guard.g.as_mut().unwrap());
        log("cond", self.id, &self.site, if c { "T".to_string() } else { "F".to_string() });
        if !c {
          return Ok(guard);
        }
        let (id, st) = (guard.id, guard.site);
        let g = guard.g.take().unwrap();
        drop(guard);
        log("wait", self.id, &self.site, String::new());
        let g = self.inner.wait(g).unwrap_or_else(PoisonError::into_inner);
        log("woken", self.id, &self.site, String::new());
        guard = MutexGuard { g: Some(g), id, site: st };
      }
    }
    pub fn notify_one(&self) {
      log("notify", self.id, &self.site, String::new());
      self.inner.notify_one()
    }
    pub fn notify_all(&self) {
      log("notify_all", self.id, &self.site, String::new());
      self.inner.notify_all()
    }
  }

  // ---- threads and the virtual clock ----------------------------------------------------------------
  pub fn spawn<F, T>(f: F) -> shuttle::thread::JoinHandle<T>
  where
    F: FnOnce() -> T + Send + 'static,
    T: Send + 'static,
  {
    log("spawn", 0, "", String::new());
    shuttle::thread::spawn(move || {
      log("start", 0, "", String::new());
      let r = f();
      log("exit", 0, "", format!("{}", now()));
      r
    })
  }

  #[derive(Default)]
  pub struct ClockState {
    pub now: u64,
    pub sleepers: Vec<(usize, u64)>, // (ticket, wake time)
    pub next_ticket: usize,
    pub clock_running: bool,
  }
  pub static CLOCK: std::sync::Mutex<ClockState> =
    std::sync::Mutex::new(ClockState { now: 0, sleepers: Vec::new(), next_ticket: 0, clock_running: false });

  pub fn now() -> u64 {
    CLOCK.lock().unwrap_or_else(PoisonError::into_inner).now
  }

  type ClockSync = std::sync::Arc<(shuttle::sync::Mutex<()>, shuttle::sync::Condvar)>;
  static CLOCK_SYNC: std::sync::Mutex<Option<ClockSync>> = std::sync::Mutex::new(None);
  fn clock_sync() -> ClockSync {
    let mut g = CLOCK_SYNC.lock().unwrap_or_else(PoisonError::into_inner);
    if g.is_none() {
      *g = Some(std::sync::Arc::new((shuttle::sync::Mutex::new(()), shuttle::sync::Condvar::new())));
    }
    g.as_ref().unwrap().clone()
  }
  pub fn reset_clock_sync() {
    *CLOCK_SYNC.lock().unwrap_or_else(PoisonError::into_inner) = None;
  }

  /// virtual sleep: register a wake-up time and block (on a shuttle condition variable) until the
  /// clock task has advanced that far.  Computation takes no virtual time; the clock task (named
  /// "verif-clock", body `clock_task`) is scheduled only when it is the sole runnable task, i.e. when
  /// every other thread is blocked or asleep.
  pub fn sleep(d: Duration) {
    let ms = d.as_millis() as u64;
    let sync = clock_sync();
    let (ticket, wake) = {
      let mut c = CLOCK.lock().unwrap_or_else(PoisonError::into_inner);
      let t = c.next_ticket;
      c.next_ticket += 1;
      let wake = c.now + ms;
      c.sleepers.push((t, wake));
      (t, wake)
    };
    log("sleep", 0, "", format!("{}", wake));
    let mut g = sync.0.lock().unwrap_or_else(PoisonError::into_inner);
    loop {
      let done = {
        let mut c = CLOCK.lock().unwrap_or_else(PoisonError::into_inner);
        if c.now >= wake {
          c.sleepers.retain(|(t, _)| *t != ticket);
          true
        } else {
          false
        }
      };
      if done {
        break;
      }
      g = sync.1.wait(g).unwrap_or_else(PoisonError::into_inner);
    }
    drop(g);
    log("wake", 0, "", format!("{}", wake));
  }

  /// body of the clock task: advance virtual time to the earliest wake-up whenever it gets to run;
  /// returns when nobody sleeps (quiescence: everything else is finished or blocked for good)
  pub fn clock_task() {
    let sync = clock_sync();
    loop {
      let more = {
        let mut c = CLOCK.lock().unwrap_or_else(PoisonError::into_inner);
        match c.sleepers.iter().map(|(_, w)| *w).min() {
          Some(w) => {
            if w > c.now {
              c.now = w;
            }
            true
          }
          None => false,
        }
      };
      if !more {
        break;
      }
      {
        let _g = sync.0.lock().unwrap_or_else(PoisonError::into_inner);
        sync.1.notify_all();
      }
      shuttle::thread::yield_now();
    }
  }

  /// insertion-ordered map with the part of the HashMap API the crate uses
  #[derive(Clone)]
  pub struct HashMap<K, V> {
    items: Vec<(K, V)>,
  }
  impl<K: Eq, V> HashMap<K, V> {
    pub fn new() -> HashMap<K, V> {
      HashMap { items: Vec::new() }
    }
    pub fn insert(&mut self, k: K, v: V) -> Option<V> {
      if let Some(p) = self.items.iter().position(|(kk, _)| *kk == k) {
        Some(std::mem::replace(&mut self.items[p].1, v))
      } else {
        self.items.push((k, v));
        None
      }
    }
    pub fn remove(&mut self, k: &K) -> Option<V> {
      if let Some(p) = self.items.iter().position(|(kk, _)| kk == k) {
        Some(self.items.remove(p).1)
      } else {
        None
      }
    }
    pub fn get(&self, k: &K) -> Option<&V> {
      self.items.iter().find(|(kk, _)| kk == k).map(|(_, v)| v)
    }
    pub fn contains_key(&self, k: &K) -> bool {
      self.items.iter().any(|(kk, _)| kk == k)
    }
    pub fn len(&self) -> usize {
      self.items.len()
    }
    pub fn is_empty(&self) -> bool {
      self.items.is_empty()
    }
    pub fn clear(&mut self) {
      self.items.clear()
    }
    // concrete iterator types (like std's Iter / Keys / Values they have no destructor, so a borrow of a lock guard
    // may end in the same expression)
    pub fn iter(&self) -> std::iter::Map<std::slice::Iter<'_, (K, V)>, fn(&(K, V)) -> (&K, &V)> {
      fn split<K, V>(p: &(K, V)) -> (&K, &V) {
        (&p.0, &p.1)
      }
      self.items.iter().map(split as fn(&(K, V)) -> (&K, &V))
    }
    pub fn values(&self) -> std::iter::Map<std::slice::Iter<'_, (K, V)>, fn(&(K, V)) -> &V> {
      fn snd<K, V>(p: &(K, V)) -> &V {
        &p.1
      }
      self.items.iter().map(snd as fn(&(K, V)) -> &V)
    }
    pub fn keys(&self) -> std::iter::Map<std::slice::Iter<'_, (K, V)>, fn(&(K, V)) -> &K> {
      fn fst<K, V>(p: &(K, V)) -> &K {
        &p.0
      }
      self.items.iter().map(fst as fn(&(K, V)) -> &K)
    }
    pub fn values_mut(&mut self) -> impl Iterator<Item = &mut V> {
      self.items.iter_mut().map(|(_, v)| v)
    }
    pub fn iter_mut(&mut self) -> impl Iterator<Item = (&K, &mut V)> {
      self.items.iter_mut().map(|(k, v)| (&*k, v))
    }
    pub fn get_mut(&mut self, k: &K) -> Option<&mut V> {
      self.items.iter_mut().find(|(kk, _)| kk == k).map(|(_, v)| v)
    }
    pub fn remove_entry(&mut self, k: &K) -> Option<(K, V)> {
      if let Some(p) = self.items.iter().position(|(kk, _)| kk == k) {
        Some(self.items.remove(p))
      } else {
        None
      }
    }
    pub fn retain<F: FnMut(&K, &mut V) -> bool>(&mut self, mut f: F) {
      self.items.retain_mut(|(k, v)| f(k, v))
    }
    pub fn drain(&mut self) -> std::vec::Drain<'_, (K, V)> {
      self.items.drain(..)
    }
    pub fn with_capacity(_n: usize) -> HashMap<K, V> {
      HashMap { items: Vec::new() }
    }
    pub fn into_values(self) -> impl Iterator<Item = V> {
      self.items.into_iter().map(|(_, v)| v)
    }
    pub fn into_keys(self) -> impl Iterator<Item = K> {
      self.items.into_iter().map(|(k, _)| k)
    }
  }
  impl<K: Eq, V> Default for HashMap<K, V> {
    fn default() -> Self {
      HashMap::new()
    }
  }
  impl<K, V> IntoIterator for HashMap<K, V> {
    type Item = (K, V);
    type IntoIter = std::vec::IntoIter<(K, V)>;
    fn into_iter(self) -> Self::IntoIter {
      self.items.into_iter()
    }
  }
  impl<'a, K, V> IntoIterator for &'a HashMap<K, V> {
    type Item = (&'a K, &'a V);
    type IntoIter = std::iter::Map<std::slice::Iter<'a, (K, V)>, fn(&'a (K, V)) -> (&'a K, &'a V)>;
    fn into_iter(self) -> Self::IntoIter {
      fn split<'b, K, V>(p: &'b (K, V)) -> (&'b K, &'b V) {
        (&p.0, &p.1)
      }
      self.items.iter().map(split as fn(&'a (K, V)) -> (&'a K, &'a V))
    }
  }
}
