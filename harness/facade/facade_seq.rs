// ---- appended by /verif/tools/instrument.py: facade over std (sequential mode) -----------------
// Every `std::` path of the crate's sources is redirected to `crate::verif_std::`.  In this mode the
// facade is std plus: (1) same-thread re-acquisition of a RwLock/Mutex panics with
// "verif-self-deadlock" instead of hanging, (2) a per-case budget of lock operations cuts livelocks
// ("verif-budget"), (3) an insertion-ordered HashMap so that broadcast / teardown order is
// reproducible.  Nothing else differs from std.
#[allow(dead_code)]
pub mod verif_std {
  pub use std::*;
  pub mod collections {
    pub use std::collections::*;
    pub use super::super::verif_facade::HashMap;
  }
  pub mod sync {
    pub use std::sync::*;
    pub use super::super::verif_facade::{Condvar, Mutex, MutexGuard, RwLock, RwLockReadGuard, RwLockWriteGuard};
  }
  pub mod thread {
    pub use std::thread::*;
  }
}

#[allow(dead_code)]
pub mod verif_facade {
  use std::cell::RefCell;
  use std::ops::{Deref, DerefMut};
  use std::sync::atomic::{AtomicU64, AtomicUsize, Ordering};
  use std::sync::{LockResult, PoisonError};

  static NEXT_ID: AtomicUsize = AtomicUsize::new(1);
  pub static OPS: AtomicU64 = AtomicU64::new(0);
  pub static BUDGET: AtomicU64 = AtomicU64::new(0);

  thread_local! {
    static HELD: RefCell<Vec<(usize, bool)>> = RefCell::new(Vec::new());
  }

  pub fn reset(budget: u64) {
    OPS.store(0, Ordering::SeqCst);
    BUDGET.store(budget, Ordering::SeqCst);
    HELD.with(|h| h.borrow_mut().clear());
  }
  pub fn ops() -> u64 {
    OPS.load(Ordering::SeqCst)
  }

  fn acquire(id: usize, write: bool) {
    let n = OPS.fetch_add(1, Ordering::Relaxed) + 1;
    let b = BUDGET.load(Ordering::Relaxed);
    if b > 0 && n > b {
      panic!("verif-budget");
    }
    let conflict = HELD.with(|h| h.borrow().iter().any(|(i, w)| *i == id && (write || *w)));
    if conflict {
      panic!("verif-self-deadlock");
    }
    HELD.with(|h| h.borrow_mut().push((id, write)));
  }
  fn release(id: usize) {
    HELD.with(|h| {
      let mut h = h.borrow_mut();
      if let Some(p) = h.iter().rposition(|(i, _)| *i == id) {
        h.remove(p);
      }
    });
  }

  pub struct RwLock<T> {
    inner: std::sync::RwLock<T>,
    id: usize,
  }
  pub struct RwLockReadGuard<'a, T> {
    g: Option<std::sync::RwLockReadGuard<'a, T>>,
    id: usize,
  }
  pub struct RwLockWriteGuard<'a, T> {
    g: Option<std::sync::RwLockWriteGuard<'a, T>>,
    id: usize,
  }
  impl<T> RwLock<T> {
    pub fn new(t: T) -> RwLock<T> {
      RwLock { inner: std::sync::RwLock::new(t), id: NEXT_ID.fetch_add(1, Ordering::Relaxed) }
    }
    pub fn read(&self) -> LockResult<RwLockReadGuard<'_, T>> {
      acquire(self.id, false);
      let g = self.inner.read().unwrap_or_else(PoisonError::into_inner);
      Ok(RwLockReadGuard { g: Some(g), id: self.id })
    }
    pub fn write(&self) -> LockResult<RwLockWriteGuard<'_, T>> {
      acquire(self.id, true);
      let g = self.inner.write().unwrap_or_else(PoisonError::into_inner);
      Ok(RwLockWriteGuard { g: Some(g), id: self.id })
    }
  }
  impl<'a, T> Deref for RwLockReadGuard<'a, T> {
    type Target = T;
    fn deref(&self) -> &T {
      self.g.as_ref().unwrap()
    }
  }
  impl<'a, T> Deref for RwLockWriteGuard<'a, T> {
    type Target = T;
    fn deref(&self) -> &T {
      self.g.as_ref().unwrap()
    }
  }
  impl<'a, T> DerefMut for RwLockWriteGuard<'a, T> {
    fn deref_mut(&mut self) -> &mut T {
      self.g.as_mut().unwrap()
    }
  }
  impl<'a, T> Drop for RwLockReadGuard<'a, T> {
    fn drop(&mut self) {
      self.g.take();
      release(self.id);
    }
  }
  impl<'a, T> Drop for RwLockWriteGuard<'a, T> {
    fn drop(&mut self) {
      self.g.take();
      release(self.id);
    }
  }

  pub struct Mutex<T> {
    inner: std::sync::Mutex<T>,
    id: usize,
  }
  pub struct MutexGuard<'a, T> {
    g: Option<std::sync::MutexGuard<'a, T>>,
    id: usize,
  }
  impl<T> Mutex<T> {
    pub fn new(t: T) -> Mutex<T> {
      Mutex { inner: std::sync::Mutex::new(t), id: NEXT_ID.fetch_add(1, Ordering::Relaxed) }
    }
    pub fn lock(&self) -> LockResult<MutexGuard<'_, T>> {
      acquire(self.id, true);
      let g = self.inner.lock().unwrap_or_else(PoisonError::into_inner);
      Ok(MutexGuard { g: Some(g), id: self.id })
    }
  }
  impl<'a, T> Deref for MutexGuard<'a, T> {
    type Target = T;
    fn deref(&self) -> &T {
      self.g.as_ref().unwrap()
    }
  }
  impl<'a, T> DerefMut for MutexGuard<'a, T> {
    fn deref_mut(&mut self) -> &mut T {
      self.g.as_mut().unwrap()
    }
  }
  impl<'a, T> Drop for MutexGuard<'a, T> {
    fn drop(&mut self) {
      self.g.take();
      release(self.id);
    }
  }

  pub struct Condvar {
    inner: std::sync::Condvar,
  }
  impl Condvar {
    pub fn new() -> Condvar {
      Condvar { inner: std::sync::Condvar::new() }
    }
    pub fn wait_while<'a, T, F>(&self, mut guard: MutexGuard<'a, T>, condition: F) -> LockResult<MutexGuard<'a, T>>
    where
      F: FnMut(&mut T) -> bool,
    {
      let id = guard.id;
      let g = guard.g.take().unwrap();
      drop(guard);
      let g = self.inner.wait_while(g, condition).unwrap_or_else(PoisonError::into_inner);
      acquire(id, true);
      Ok(MutexGuard { g: Some(g), id })
    }
    pub fn notify_one(&self) {
      self.inner.notify_one()
    }
    pub fn notify_all(&self) {
      self.inner.notify_all()
    }
  }

  /// insertion-ordered map with the part of the HashMap API the crate uses
  #[derive(Clone)]
  pub struct HashMap<K, V> {
    items: Vec<(K, V)>,
  }
  impl<K: Eq, V> HashMap<K, V> {
    pub fn new() -> HashMap<K, V> {
      HashMap { items: Vec::new() }
    }
    pub fn insert(&mut self, k: K, v: V) -> Option<V> {
      if let Some(p) = self.items.iter().position(|(kk, _)| *kk == k) {
        Some(std::mem::replace(&mut self.items[p].1, v))
      } else {
        self.items.push((k, v));
        None
      }
    }
    pub fn remove(&mut self, k: &K) -> Option<V> {
      if let Some(p) = self.items.iter().position(|(kk, _)| kk == k) {
        Some(self.items.remove(p).1)
      } else {
        None
      }
    }
    pub fn get(&self, k: &K) -> Option<&V> {
      self.items.iter().find(|(kk, _)| kk == k).map(|(_, v)| v)
    }
    pub fn contains_key(&self, k: &K) -> bool {
      self.items.iter().any(|(kk, _)| kk == k)
    }
    pub fn len(&self) -> usize {
      self.items.len()
    }
    pub fn is_empty(&self) -> bool {
      self.items.is_empty()
    }
    pub fn clear(&mut self) {
      self.items.clear()
    }
    pub fn iter(&self) -> impl Iterator<Item = (&K, &V)> {
      self.items.iter().map(|(k, v)| (k, v))
    }
    pub fn values(&self) -> impl Iterator<Item = &V> {
      self.items.iter().map(|(_, v)| v)
    }
  }
}
