// ---- appended by /verif/tools/instrument.py: facade over std (sequential mode) -----------------
// Every `std::` path of the crate's sources is redirected to `crate::verif_std::`.  In this mode the
// facade is std plus: (1) same-thread re-acquisition of a RwLock/Mutex panics with
// "verif-self-deadlock" instead of hanging, (2) a per-case budget of lock operations cuts livelocks
// ("verif-budget"), (3) an insertion-ordered HashMap so that broadcast / teardown order is
// reproducible.  Nothing else differs from std.
#[allow(dead_code)]
pub mod verif_std {
  pub use std::*;
  pub mod collections {
    pub use std::collections::*;
    pub use super::super::verif_facade::HashMap;
  }
  pub mod sync {
    pub use std::sync::*;
    pub use super::super::verif_facade::{Condvar, Mutex, MutexGuard, RwLock, RwLockReadGuard, RwLockWriteGuard};
  }
  pub mod thread {
    pub use std::thread::*;
  }
}

#[allow(dead_code)]
pub mod verif_facade {
  use std::cell::RefCell;
  use std::ops::{Deref, DerefMut};
  use std::sync::atomic::{AtomicU64, AtomicUsize, Ordering};
  use std::sync::{LockResult, PoisonError};

  static NEXT_ID: AtomicUsize = AtomicUsize::new(1);
  pub static OPS: AtomicU64 = AtomicU64::new(0);
  pub static BUDGET: AtomicU64 = AtomicU64::new(0);

  thread_local! {
    static HELD: RefCell<Vec<(usize, bool)>> = RefCell::new(Vec::new());
  }

  pub fn reset(budget: u64) {
    OPS.store(0, Ordering::SeqCst);
    BUDGET.store(budget, Ordering::SeqCst);
    HELD.with(|h| h.borrow_mut().clear());
  }
  pub fn ops() -> u64 {
    OPS.load(Ordering::SeqCst)
  }

  fn acquire(id: usize, write: bool) {
    let n = OPS.fetch_add(1, Ordering::Relaxed) + 1;
    let b = BUDGET.load(Ordering::Relaxed);
    if b > 0 && n > b {
      panic!("verif-budget");
    }
    let conflict = HELD.with(|h| h.borrow().iter().any(|(i, w)| *i == id && (write || *w)));
    if conflict {
      panic!("verif-self-deadlock");
    }
    HELD.with(|h| h.borrow_mut().push((id, write)));
  }
  fn release(id: usize) {
    HELD.with(|h| {
      let mut h = h.borrow_mut();
      if let Some(p) = h.iter().rposition(|(i, _)| *i == id) {
        h.remove(p);
      }
    });
  }

  pub struct RwLock<T> {
    inner: std::sync::RwLock<T>,
    id: usize,
  }
  pub struct RwLockReadGuard<'a, T> {
    g: Option<std::sync::RwLockReadGuard<'a, T>>,
    id: usize,
  }
  pub struct RwLockWriteGuard<'a, T> {
    g: Option<std::sync::RwLockWriteGuard<'a, T>>,
    id: usize,
  }
  impl<T> RwLock<T> {
    pub fn new(t: T) -> RwLock<T> {
      RwLock { inner: std::sync::RwLock::new(t), id: NEXT_ID.fetch_add(1, Ordering::Relaxed) }
    }
    pub fn read(&self) -> LockResult<RwLockReadGuard<'_, T>> {
      acquire(self.id, false);
      let g = self.inner.read().unwrap_or_else(PoisonError::into_inner);
      Ok(RwLockReadGuard { g: Some(g), id: self.id })
    }
    pub fn write(&self) -> LockResult<RwLockWriteGuard<'_, T>> {
      acquire(self.id, true);
      let g = self.inner.write().unwrap_or_else(PoisonError::into_inner);
      Ok(RwLockWriteGuard { g: Some(g), id: self.id })
    }
  }
  impl<'a, T> Deref for RwLockReadGuard<'a, T> {
    type Target = T;
    fn deref(&self) -> &T {
      self.g.as_ref().unwrap()
    }
  }
  impl<'a, T> Deref for RwLockWriteGuard<'a, T> {
    type Target = T;
    fn deref(&self) -> &T {
      self.g.as_ref().unwrap()
    }
  }
  impl<'a, T> DerefMut for RwLockWriteGuard<'a, T> {
    fn deref_mut(&mut self) -> &mut T {
      self.g.as_mut().unwrap()
    }
  }
  impl<'a, T> Drop for RwLockReadGuard<'a, T> {
    fn drop(&mut self) {
      self.g.take();
      release(self.id);
    }
  }
  impl<'a, T> Drop for RwLockWriteGuard<'a, T> {
    fn drop(&mut self) {
      self.g.take();
      release(self.id);
    }
  }

  pub struct Mutex<T> {
    inner: std::sync::Mutex<T>,
    id: usize,
  }
  pub struct MutexGuard<'a, T> {
    g: Option<std::sync::MutexGuard<'a, T>>,
    id: usize,
  }
  impl<T> Mutex<T> {
    pub fn new(t: T) -> Mutex<T> {
      Mutex { inner: std::sync::Mutex::new(t), id: NEXT_ID.fetch_add(1, Ordering::Relaxed) }
    }
    pub fn lock(&self) -> LockResult<MutexGuard<'_, T>> {
      acquire(self.id, true);
      let g = self.inner.lock().unwrap_or_else(PoisonError::into_inner);
      Ok(MutexGuard { g: Some(g), id: self.id })
    }
  }
  impl<'a, T> Deref for MutexGuard<'a, T> {
    type Target = T;
    fn deref(&self) -> &T {
      self.g.as_ref().unwrap()
    }
  }
  impl<'a, T> DerefMut for MutexGuard<'a, T> {
    fn deref_mut(&mut self) -> &mut T {
      self.g.as_mut().unwrap()
    }
  }
  impl<'a, T> Drop for MutexGuard<'a, T> {
    fn drop(&mut self) {
      self.g.take();
      release(self.id);
    }
  }

  pub struct Condvar {
    inner: std::sync::Condvar,
  }
  impl Condvar {
    pub fn new() -> Condvar {
      Condvar { inner: std::sync::Condvar::new() }
    }
    pub fn wait_while<'a, T, F>(&self, mut guard: MutexGuard<'a, T>, condition: F) -> LockResult<MutexGuard<'a, T>>
    where
      F: FnMut(&mut T) -> bool,
    {
      let id = guard.id;
      let g = guard.g.take().unwrap();
      drop(guard);
      let g = self.inner.wait_while(g, condition).unwrap_or_else(PoisonError::into_inner);
      acquire(id, true);
      Ok(MutexGuard { g: Some(g), id })
    }
    pub fn notify_one(&self) {
      self.inner.notify_one()
    }
    pub fn notify_all(&self) {
      self.inner.notify_all()
    }
  }

  /// insertion-ordered map with the part of the HashMap API the crate uses
  #[derive(Clone)]
  pub struct HashMap<K, V> {
    items: Vec<(K, V)>,
  }
  impl<K: Eq, V> HashMap<K, V> {
    pub fn new() -> HashMap<K, V> {
      HashMap { items: Vec::new() }
    }
    pub fn insert(&mut self, k: K, v: V) -> Option<V> {
      if let Some(p) = self.items.iter().position(|(kk, _)| *kk == k) {
        Some(std::mem::replace(&mut self.items[p].1, v))
      } else {
        self.items.push((k, v));
        None
      }
    }
    pub fn remove(&mut self, k: &K) -> Option<V> {
      if let Some(p) = self.items.iter().position(|(kk, _)| kk == k) {
        Some(self.items.remove(p).1)
      } else {
        None
      }
    }
    pub fn get(&self, k: &K) -> Option<&V> {
      self.items.iter().find(|(kk, _)| kk == k).map(|(_, v)| v)
    }
    pub fn contains_key(&self, k: &K) -> bool {
      self.items.iter().any(|(kk, _)| kk == k)
    }
    pub fn len(&self) -> usize {
      self.items.len()
    }
    pub fn is_empty(&self) -> bool {
      self.items.is_empty()
    }
    pub fn clear(&mut self) {
      self.items.clear()
    }
    // concrete iterator types (like std's Iter / Keys / Values they have no destructor, so a borrow of a lock guard
    // may end in the same expression)
    pub fn iter(&self) -> std::iter::Map<std::slice::Iter<'_, (K, V)>, fn(&(K, V)) -> (&K, &V)> {
      fn split<K, V>(p: &(K, V)) -> (&K, &V) {
        (&p.0, &p.1)
      }
      self.items.iter().map(split as fn(&(K, V)) -> (&K, &V))
    }
    pub fn values(&self) -> std::iter::Map<std::slice::Iter<'_, (K, V)>, fn(&(K, V)) -> &V> {
      fn snd<K, V>(p: &(K, V)) -> &V {
        &p.1
      }
      self.items.iter().map(snd as fn(&(K, V)) -> &V)
    }
    pub fn keys(&self) -> std::iter::Map<std::slice::Iter<'_, (K, V)>, fn(&(K, V)) -> &K> {
      fn fst<K, V>(p: &(K, V)) -> &K {
        &p.0
      }
      self.items.iter().map(fst as fn(&(K, V)) -> &K)
    }
    pub fn values_mut(&mut self) -> impl Iterator<Item = &mut V> {
      self.items.iter_mut().map(|(_, v)| v)
    }
    pub fn iter_mut(&mut self) -> impl Iterator<Item = (&K, &mut V)> {
      self.items.iter_mut().map(|(k, v)| (&*k, v))
    }
    pub fn get_mut(&mut self, k: &K) -> Option<&mut V> {
      self.items.iter_mut().find(|(kk, _)| kk == k).map(|(_, v)| v)
    }
    pub fn remove_entry(&mut self, k: &K) -> Option<(K, V)> {
      if let Some(p) = self.items.iter().position(|(kk, _)| kk == k) {
        Some(self.items.remove(p))
      } else {
        None
      }
    }
    pub fn retain<F: FnMut(&K, &mut V) -> bool>(&mut self, mut f: F) {
      self.items.retain_mut(|(k, v)| f(k, v))
    }
    pub fn drain(&mut self) -> std::vec::Drain<'_, (K, V)> {
      self.items.drain(..)
    }
    pub fn with_capacity(_n: usize) -> HashMap<K, V> {
      HashMap { items: Vec::new() }
    }
    pub fn into_values(self) -> impl Iterator<Item = V> {
      self.items.into_iter().map(|(_, v)| v)
    }
    pub fn into_keys(self) -> impl Iterator<Item = K> {
      self.items.into_iter().map(|(k, _)| k)
    }
  }
  impl<K: Eq, V> Default for HashMap<K, V> {
    fn default() -> Self {
      HashMap::new()
    }
  }
  impl<K, V> IntoIterator for HashMap<K, V> {
    type Item = (K, V);
    type IntoIter = std::vec::IntoIter<(K, V)>;
    fn into_iter(self) -> Self::IntoIter {
      self.items.into_iter()
    }
  }
  impl<'a, K, V> IntoIterator for &'a HashMap<K, V> {
    type Item = (&'a K, &'a V);
    type IntoIter = std::iter::Map<std::slice::Iter<'a, (K, V)>, fn(&'a (K, V)) -> (&'a K, &'a V)>;
    fn into_iter(self) -> Self::IntoIter {
      fn split<'b, K, V>(p: &'b (K, V)) -> (&'b K, &'b V) {
        (&p.0, &p.1)
      }
      self.items.iter().map(split as fn(&'a (K, V)) -> (&'a K, &'a V))
    }
  }
}
