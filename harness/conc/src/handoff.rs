//! Scenario `handoff`: a script is played into `observe_on(new_thread_scheduler())` by a source thread, or
//! by a synchronous source under `subscribe_on(new_thread_scheduler())`; the subscriber's callbacks stamp
//! their start / return; optionally a third thread calls `Subscription::unsubscribe`.  The facade's event
//! log is rendered as the OBSERVABLE OPERATION of every micro-step of the Lean LTS `Rx.Handoff` /
//! `Rx.Handoff.SubOn` (lean/RxVerif/Conc/Handoff.lean): `<tid> <op>` with
//!   r:<lock> / w:<lock>   read / write acquisition of one of the nine modelled locks
//!                         sN sE sC sU  = subscriber's fn_next, fn_error, fn_complete, fn_on_unsubscribe
//!                         uN uE uC     = the three slots of the observer handed to the source
//!                         unsc fin     = StreamController::unscribers, ::on_finalize
//!                         (`@<ev>` is appended to the uN operation that starts the emission of <ev>)
//!   rel:fin | noStop      release of `on_finalize` (preceded by `noStop` when no scheduler stop happened under it)
//!   q:post q:take q:exit q:stop   one critical section of the scheduler's queue mutex (folded, see `render`)
//!   cbStart <ev> | cbReturn <ev> | unsubCall | srcDone   harness stamps
//! Which `Handoff.Kind` an operation is, is decided by the LTS state (lean/RxVerif/Conc/HandoffCosim.lean):
//! the renderer does not know the program counters.
//!   (handoff observe (script 1 2 c) (unsub race))     unsub: none | race | late
//!   (handoff subscribe (script 1 e3) (unsub none))
use crate::sexp::Sexp;
use crate::{Outcome, Scenario};
use another_rxrust::prelude::*;
use another_rxrust::verif_facade as facade;
use std::collections::HashMap;
use std::sync::{Arc, Mutex};

#[derive(Clone, Debug)]
enum Ev {
  N(i64),
  E(i64),
  C,
}

impl Ev {
  fn text(&self) -> String {
    match self {
      Ev::N(v) => format!("n{}", v),
      Ev::E(e) => format!("e{}", e),
      Ev::C => "c".to_string(),
    }
  }
}

#[derive(Clone, Copy, PartialEq, Debug)]
enum Unsub {
  None,
  Race,
  Late,
}

pub struct HandoffSc {
  observe: bool,
  script: Vec<Ev>,
  text: String,
  unsub: Unsub,
  /// what the subscriber's callbacks saw: (facade thread id, event), filled by the callbacks themselves
  got: Arc<Mutex<Vec<(usize, String)>>>,
}

#[derive(Debug)]
struct EP(i64);

pub fn build(a: &[Sexp]) -> Option<Box<dyn Scenario>> {
  let observe = match a.first()?.atom()? {
    "observe" => true,
    "subscribe" => false,
    _ => return None,
  };
  let mut script = Vec::new();
  let mut text = Vec::new();
  let mut unsub = Unsub::None;
  for x in a[1..].iter() {
    let (h, rest) = x.call()?;
    match h {
      "script" => {
        for t in rest {
          let s = t.atom()?;
          text.push(s.to_string());
          if s == "c" {
            script.push(Ev::C);
          } else if let Some(r) = s.strip_prefix('e') {
            script.push(Ev::E(r.parse().ok()?));
          } else {
            script.push(Ev::N(s.parse().ok()?));
          }
        }
      }
      "unsub" => {
        unsub = match rest.first()?.atom()? {
          "none" => Unsub::None,
          "race" => Unsub::Race,
          "late" => Unsub::Late,
          _ => return None,
        }
      }
      _ => return None,
    }
  }
  Some(Box::new(HandoffSc { observe, script, text: text.join(" "), unsub, got: Arc::new(Mutex::new(Vec::new())) }))
}

fn h(text: String) {
  facade::log("h", 0, "", text);
}

fn play(script: &[Ev], s: &Observer<'static, i64>) {
  for ev in script {
    h(format!("call {}", ev.text()));
    match ev {
      Ev::N(v) => s.next(*v),
      Ev::E(e) => s.error(RxError::from_error(EP(*e))),
      Ev::C => s.complete(),
    }
  }
  h("srcDone".into());
}

impl Scenario for HandoffSc {
  fn body(&self) -> Arc<dyn Fn() + Send + Sync> {
    let script = self.script.clone();
    let observe = self.observe;
    let unsub = self.unsub;
    let got = self.got.clone();
    Arc::new(move || {
      got.lock().unwrap_or_else(|e| e.into_inner()).clear();
      let src_thread: Arc<Mutex<Option<shuttle::thread::JoinHandle<()>>>> = Arc::new(Mutex::new(None));
      let st2 = src_thread.clone();
      let sc2 = script.clone();
      let src: Observable<'static, i64> = Observable::create(move |s: Observer<'static, i64>| {
        if observe {
          // the source emits on a thread of its own (LTS thread 0)
          let sc3 = sc2.clone();
          let jh = shuttle::thread::spawn(move || {
            h("src".into());
            play(&sc3, &s);
          });
          *st2.lock().unwrap_or_else(|e| e.into_inner()) = Some(jh);
        } else {
          // synchronous source: runs wherever it is subscribed (must be the scheduler's worker)
          play(&sc2, &s);
        }
      });
      let o = if observe { src.observe_on(schedulers::new_thread_scheduler()) } else { src.subscribe_on(schedulers::new_thread_scheduler()) };
      let (g1, g2, g3) = (got.clone(), got.clone(), got.clone());
      let sub = o.subscribe(
        move |v: i64| {
          let t = format!("n{}", v);
          h(format!("cbStart {}", t));
          g1.lock().unwrap_or_else(|e| e.into_inner()).push((facade::tid(), t.clone()));
          h(format!("cbReturn {}", t));
        },
        move |e: RxError| {
          let t = format!("e{}", e.downcast_ref::<EP>().map(|p| p.0).unwrap_or(-1));
          h(format!("cbStart {}", t));
          g2.lock().unwrap_or_else(|e| e.into_inner()).push((facade::tid(), t.clone()));
          h(format!("cbReturn {}", t));
        },
        move || {
          h("cbStart c".into());
          g3.lock().unwrap_or_else(|e| e.into_inner()).push((facade::tid(), "c".to_string()));
          h("cbReturn c".into());
        },
      );
      let spawn_unsub = |sub: Subscription<'static>| {
        shuttle::thread::spawn(move || {
          h("unsub".into());
          h("unsubCall".into());
          sub.unsubscribe();
          h("unsubRet".into());
        })
      };
      let mut ut = None;
      if unsub == Unsub::Race {
        ut = Some(spawn_unsub(sub.clone()));
      }
      let jh = src_thread.lock().unwrap_or_else(|e| e.into_inner()).take();
      if let Some(jh) = jh {
        let _ = jh.join();
      }
      if unsub == Unsub::Late {
        ut = Some(spawn_unsub(sub.clone()));
      }
      if let Some(t) = ut {
        let _ = t.join();
      }
    })
  }

  fn render(&self, out: &Outcome) -> String {
    let ev = &out.events;
    let fw = |s: &str| s.starts_with("function_wrapper:");
    // ---- thread roles ---------------------------------------------------------------------------
    // library threads (spawned through the facade, they log `start`): the first is the worker (LTS thread 1),
    // any further one gets an id the LTS does not know (3, 4, …)
    let mut role: HashMap<usize, usize> = HashMap::new();
    let mut lib = 0usize;
    for e in ev.iter() {
      match e.kind {
        "start" => {
          if !role.contains_key(&e.tid) {
            role.insert(e.tid, if lib == 0 { 1 } else { 2 + lib });
            lib += 1;
          }
        }
        "h" if e.payload == "src" => {
          role.insert(e.tid, 0);
        }
        "h" if e.payload == "unsub" => {
          role.insert(e.tid, 2);
        }
        _ => {}
      }
    }
    // ---- lock table, from the set-up events (creation order inside one constructor is fixed) -------
    let s_u = ev.iter().find(|e| e.kind == "acq_w" && e.site.starts_with("observer:")).map(|e| e.obj);
    let fin = ev.iter().find(|e| e.kind == "acq_w" && e.site.starts_with("stream_controller:")).map(|e| e.obj);
    let mut name: HashMap<usize, &'static str> = HashMap::new();
    let mut table_ok = true;
    if let (Some(u), Some(f)) = (s_u, fin) {
      name.insert(u - 3, "sN");
      name.insert(u - 2, "sE");
      name.insert(u - 1, "sC");
      name.insert(u, "sU");
      name.insert(f - 1, "unsc");
      name.insert(f, "fin");
      let serial = f - 2;
      // `new_observer` is the only writer of `serial`; afterwards that thread re-checks the SUBSCRIBER
      // (reads of sN/sE/sC, already named) and, if it is dead, write-clears the fresh observer's slots; its
      // first READ of a function slot that is not the subscriber's is `inner_subscribe`'s `is_subscribed()`
      // on the fresh observer: its fn_next
      if let Some(p) = ev.iter().position(|e| e.kind == "acq_w" && e.obj == serial) {
        let t = ev[p].tid;
        let known = name.clone();
        if let Some(e) = ev[p..].iter().find(|e| e.tid == t && e.kind == "acq_r" && fw(&e.site) && !known.contains_key(&e.obj)) {
          name.insert(e.obj, "uN");
          name.insert(e.obj + 1, "uE");
          name.insert(e.obj + 2, "uC");
        }
      }
    } else {
      table_ok = false;
    }
    // every named slot must have been created in function_wrapper.rs / observer.rs / stream_controller.rs
    for e in ev.iter() {
      if let Some(n) = name.get(&e.obj) {
        if e.kind == "acq_r" || e.kind == "acq_w" {
          let ok = match *n {
            "sU" => e.site.starts_with("observer:"),
            "unsc" | "fin" => e.site.starts_with("stream_controller:"),
            _ => fw(&e.site),
          };
          if !ok {
            table_ok = false;
          }
        }
      }
    }
    // ---- labels --------------------------------------------------------------------------------------
    let mut labels: Vec<String> = Vec::new();
    let mut pending: HashMap<usize, String> = HashMap::new(); // thread -> event whose emission call was stamped
    let mut abort_set = false;
    let mut cs_stop: HashMap<usize, bool> = HashMap::new(); // thread -> its current queue critical section is a `stop`
    let mut after_cond_f: HashMap<usize, bool> = HashMap::new();
    let mut fin_stop: HashMap<usize, bool> = HashMap::new(); // thread -> a stop happened under its `on_finalize` guard
    let mut wexit = false;
    for e in ev.iter() {
      let t = match role.get(&e.tid) {
        Some(t) => *t,
        None => {
          if !self.observe && e.tid == 0 {
            0
          } else {
            continue;
          }
        }
      };
      let is_queue = e.site.starts_with("async_function_queue:");
      // subscribe_on: thread 0 is the subscribing thread; everything it does except the post is set-up,
      // which the LTS's initial state stands for
      if !self.observe && t == 0 && !is_queue {
        continue;
      }
      match e.kind {
        "h" => {
          let p = e.payload.as_str();
          if let Some(x) = p.strip_prefix("call ") {
            pending.insert(t, x.to_string());
          } else if p.starts_with("cbStart ") || p.starts_with("cbReturn ") || p == "unsubCall" {
            labels.push(format!("{} {}", t, p));
          } else if p == "srcDone" && !self.observe {
            labels.push(format!("{} srcDone", t));
          }
        }
        "lock" if is_queue => {
          cs_stop.insert(t, false);
        }
        "acq_w" if is_queue => {
          // `stop`: clear + abort write, one critical section
          labels.push(format!("{} q:stop", t));
          abort_set = true;
          cs_stop.insert(t, true);
          fin_stop.insert(t, true);
        }
        "notify" if is_queue => {
          if !cs_stop.get(&t).copied().unwrap_or(false) {
            labels.push(format!("{} q:post", t));
          }
        }
        "cond" if is_queue => {
          after_cond_f.insert(t, e.payload == "F");
        }
        "acq_r" if is_queue => {
          // the abort read after `wait_while` returned: `if abort { None } else { pop_front() }`
          if after_cond_f.get(&t).copied().unwrap_or(false) {
            labels.push(format!("{} {}", t, if abort_set { "q:exit" } else { "q:take" }));
            after_cond_f.insert(t, false);
          }
        }
        "acq_r" | "acq_w" => {
          if let Some(n) = name.get(&e.obj) {
            let m = if e.kind == "acq_r" { "r" } else { "w" };
            let mut l = format!("{} {}:{}", t, m, n);
            if *n == "uN" {
              if let Some(x) = pending.remove(&t) {
                l.push('@');
                l.push_str(&x);
              }
            }
            if *n == "fin" && e.kind == "acq_w" {
              fin_stop.insert(t, false);
            }
            labels.push(l);
          }
        }
        "rel" => {
          if name.get(&e.obj) == Some(&"fin") {
            if !fin_stop.get(&t).copied().unwrap_or(false) {
              labels.push(format!("{} noStop", t));
            }
            labels.push(format!("{} rel:fin", t));
          }
        }
        "exit" => {
          if t == 1 {
            wexit = true;
          }
        }
        _ => {}
      }
    }
    let got = self.got.lock().unwrap_or_else(|e| e.into_inner()).clone();
    let got_text: Vec<String> = got.iter().map(|(tid, x)| format!("{}:{}", role.get(tid).map(|r| r.to_string()).unwrap_or(format!("m{}", tid)), x)).collect();
    format!(
      "mode={} unsub={} table={} script={} ; got={} wexit={} ; {}",
      if self.observe { "observe" } else { "subscribe" },
      match self.unsub {
        Unsub::None => "none",
        Unsub::Race => "race",
        Unsub::Late => "late",
      },
      if table_ok { "ok" } else { "BAD" },
      self.text,
      got_text.join(","),
      if wexit { "T" } else { "F" },
      labels.join(";")
    )
  }
}
