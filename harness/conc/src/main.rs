//! Concurrent correspondence harness: runs scenarios against the shuttle-instrumented copy of /repo's
//! current working tree under many seeded schedules and prints, per distinct execution, either a
//! label trace for co-simulation by a Lean LTS (`cosim` scenarios) or an event record for the
//! property oracles.
//!
//! usage: rxh-conc <seed> <iterations> <strategy: random|pct> < scenarios.txt
//! output: one line per DISTINCT execution:  <scenario-id> | seed=<s> out=<ok|deadlock|panic|steps> | <payload>
#[path = "../../seq/src/core.rs"]
mod core;
mod handoff;
#[path = "../../seq/src/sexp.rs"]
mod sexp;
#[path = "../../seq/src/value.rs"]
mod value;
mod obs;
mod pipe;
mod queue;
mod sctl;
mod subj;
mod subjlts;
mod timedlts;
mod tovec;

use another_rxrust::verif_facade as facade;
use sexp::Sexp;
use shuttle::scheduler::{PctScheduler, RandomScheduler, Schedule, Scheduler, Task, TaskId};
use std::collections::HashMap;
use std::io::{BufRead, Write};
use std::panic::{catch_unwind, AssertUnwindSafe};
use std::sync::Arc;

/// runs the clock task only when nothing else can run: virtual time advances when every other thread
/// is blocked or asleep
struct ClockAware<S: Scheduler>(S);

impl<S: Scheduler> Scheduler for ClockAware<S> {
  fn new_execution(&mut self) -> Option<Schedule> {
    self.0.new_execution()
  }
  fn next_task(&mut self, runnable: &[&Task], current: Option<TaskId>, is_yielding: bool) -> Option<TaskId> {
    let others: Vec<&Task> = runnable.iter().copied().filter(|t| t.name().as_deref() != Some("verif-clock")).collect();
    if others.is_empty() {
      self.0.next_task(runnable, current, is_yielding)
    } else {
      let cur = match current {
        Some(c) if others.iter().any(|t| t.id() == c) => Some(c),
        _ => None,
      };
      self.0.next_task(&others, cur, is_yielding)
    }
  }
  fn next_u64(&mut self) -> u64 {
    self.0.next_u64()
  }
}

/// Priority scheduling in the style of PCT, usable together with the virtual clock (shuttle's own PctScheduler asserts
/// when the runnable set is filtered): every task gets a random priority when it is first seen, the runnable task
/// with the highest priority runs, and at `depth` random change points the running task drops below all others.
/// It explores what uniform random choice practically never does: one thread running far ahead of another.
/// The clock task runs only when nothing else can.
struct Priority {
  seed: u64,
  state: u64,
  started: bool,
  prios: HashMap<usize, u64>,
  step: u64,
  changes: Vec<u64>,
  low: u64,
}

impl Priority {
  fn new(seed: u64) -> Priority {
    Priority { seed, state: seed ^ 0x9E37_79B9_7F4A_7C15, started: false, prios: HashMap::new(), step: 0, changes: Vec::new(), low: 1 << 20 }
  }
  fn rnd(&mut self) -> u64 {
    // splitmix64
    self.state = self.state.wrapping_add(0x9E37_79B9_7F4A_7C15);
    let mut z = self.state;
    z = (z ^ (z >> 30)).wrapping_mul(0xBF58_476D_1CE4_E5B9);
    z = (z ^ (z >> 27)).wrapping_mul(0x94D0_49BB_1331_11EB);
    z ^ (z >> 31)
  }
}

impl Scheduler for Priority {
  fn new_execution(&mut self) -> Option<Schedule> {
    if self.started {
      return None;
    }
    self.started = true;
    self.prios.clear();
    self.step = 0;
    self.low = 1 << 20;
    let horizon = 20 + self.rnd() % 600;
    self.changes = (0..3).map(|_| 1 + self.rnd() % horizon).collect();
    Some(Schedule::new(self.seed))
  }
  fn next_task(&mut self, runnable: &[&Task], current: Option<TaskId>, is_yielding: bool) -> Option<TaskId> {
    let others: Vec<&Task> = runnable.iter().copied().filter(|t| t.name().as_deref() != Some("verif-clock")).collect();
    let cands: Vec<&Task> = if others.is_empty() { runnable.to_vec() } else { others };
    self.step += 1;
    for t in cands.iter() {
      let id = usize::from(t.id());
      if !self.prios.contains_key(&id) {
        let p = (1 << 21) + self.rnd() % (1 << 20);
        self.prios.insert(id, p);
      }
    }
    if let Some(c) = current {
      if is_yielding || self.changes.contains(&self.step) {
        self.low -= 1;
        let l = self.low;
        self.prios.insert(usize::from(c), l);
      }
    }
    cands.iter().max_by_key(|t| self.prios.get(&usize::from(t.id())).copied().unwrap_or(0)).map(|t| t.id())
  }
  fn next_u64(&mut self) -> u64 {
    self.rnd()
  }
}

pub struct Outcome {
  pub status: String,
  pub detail: String,
  pub events: Vec<facade::Event>,
}

/// one execution of `body` under the schedule determined by (strategy, seed)
pub fn execute(seed: u64, strategy: &str, body: Arc<dyn Fn() + Send + Sync>) -> Outcome {
  let mut config = shuttle::Config::new();
  config.max_steps = shuttle::MaxSteps::FailAfter(200_000);
  config.failure_persistence = shuttle::FailurePersistence::None;
  config.stack_size = 1 << 20;
  let pct = strategy == "pct";
  let run = move || {
    facade::reset();
    // task ids: 0 = main, 1 = clock (a no-op task under PCT, which runs untimed scenarios only)
    let clock = if pct {
      shuttle::thread::Builder::new().name("verif-clock".to_string()).spawn(|| {}).expect("clock")
    } else {
      shuttle::thread::Builder::new().name("verif-clock".to_string()).spawn(facade::clock_task).expect("clock")
    };
    body();
    let _ = clock;
    facade::reset_clock_sync();
  };
  let r = if pct {
    let s = PctScheduler::new_from_seed(seed, 3, 1);
    catch_unwind(AssertUnwindSafe(|| shuttle::Runner::new(s, config).run(run)))
  } else if strategy == "pri" {
    let s = Priority::new(seed);
    catch_unwind(AssertUnwindSafe(|| shuttle::Runner::new(s, config).run(run)))
  } else {
    let s = ClockAware(RandomScheduler::new_from_seed(seed, 1));
    catch_unwind(AssertUnwindSafe(|| shuttle::Runner::new(s, config).run(run)))
  };
  let events = facade::take_events();
  match r {
    Ok(_) => Outcome { status: "ok".into(), detail: String::new(), events },
    Err(p) => {
      let msg = p.downcast_ref::<&str>().map(|s| s.to_string()).or(p.downcast_ref::<String>().cloned()).unwrap_or_default();
      let status = if msg.contains("deadlock") {
        "deadlock"
      } else if msg.contains("already holds") || msg.contains("tried to acquire") {
        "selfdeadlock"
      } else if msg.contains("max_steps") {
        "steps"
      } else {
        "panic"
      };
      Outcome { status: status.into(), detail: msg.replace('\n', " ").chars().take(300).collect(), events }
    }
  }
}

/// Dynamic lock-order analysis of one execution (C07, cross-thread part).  Walks the lock events keeping, per
/// thread, the locks it holds; every acquisition made while holding other locks adds an edge held -> acquired
/// (lock instances, identified by creation order).  Verdict `ok` = no thread re-acquired a lock it holds and the
/// edge relation is acyclic, i.e. a rank function exists under which every thread acquires in strictly increasing
/// rank — the hypothesis of `Rx.LockOrder.ranked_no_deadlock`.  The certificate (that rank + the event list) is
/// re-checked by the verified checker `Rx.LockOrder.checkTrace` (`rxmodel lockrank`).
/// A condvar wait releases the mutex it was given and re-acquires it when woken.
pub fn lock_order(events: &[facade::Event], want_cert: bool) -> (String, String) {
  use std::collections::{BTreeMap, BTreeSet};
  let mut held: BTreeMap<usize, Vec<(usize, bool)>> = BTreeMap::new(); // tid -> [(lock, is_mutex)]
  let mut parked: BTreeMap<usize, usize> = BTreeMap::new();
  let mut edges: BTreeSet<(usize, usize)> = BTreeSet::new();
  let mut sites: BTreeMap<usize, String> = BTreeMap::new();
  let mut trace: Vec<String> = Vec::new();
  let mut nodes: BTreeSet<usize> = BTreeSet::new();
  let mut verdict = String::from("ok");
  for e in events.iter() {
    let acquire = |obj: usize, is_mutex: bool, held: &mut BTreeMap<usize, Vec<(usize, bool)>>, edges: &mut BTreeSet<(usize, usize)>, trace: &mut Vec<String>, verdict: &mut String| {
      let h = held.entry(e.tid).or_default();
      if h.iter().any(|x| x.0 == obj) && verdict == "ok" {
        *verdict = format!("reacquire:{}", e.site);
      }
      for x in h.iter() {
        edges.insert((x.0, obj));
      }
      h.push((obj, is_mutex));
      if want_cert {
        trace.push(format!("{} A {}", e.tid, obj));
      }
    };
    match e.kind {
      "acq_r" | "acq_w" | "lock" => {
        sites.entry(e.obj).or_insert_with(|| e.site.clone());
        nodes.insert(e.obj);
        acquire(e.obj, e.kind == "lock", &mut held, &mut edges, &mut trace, &mut verdict);
      }
      "rel" | "unlock" => {
        let h = held.entry(e.tid).or_default();
        if let Some(i) = h.iter().rposition(|x| x.0 == e.obj) {
          h.remove(i);
          if want_cert {
            trace.push(format!("{} R {}", e.tid, e.obj));
          }
        }
      }
      "wait" => {
        let h = held.entry(e.tid).or_default();
        if let Some(i) = h.iter().rposition(|x| x.1) {
          let m = h.remove(i).0;
          parked.insert(e.tid, m);
          if want_cert {
            trace.push(format!("{} R {}", e.tid, m));
          }
        }
      }
      "woken" => {
        if let Some(m) = parked.remove(&e.tid) {
          acquire(m, true, &mut held, &mut edges, &mut trace, &mut verdict);
        }
      }
      _ => {}
    }
  }
  // Kahn's algorithm: rank = position in a topological order of the edge relation
  let mut indeg: BTreeMap<usize, usize> = nodes.iter().map(|n| (*n, 0)).collect();
  let mut succ: BTreeMap<usize, Vec<usize>> = BTreeMap::new();
  for (a, b) in edges.iter() {
    *indeg.entry(*b).or_default() += 1;
    succ.entry(*a).or_default().push(*b);
  }
  let mut ready: Vec<usize> = indeg.iter().filter(|(_, d)| **d == 0).map(|(n, _)| *n).collect();
  let mut rank: BTreeMap<usize, usize> = BTreeMap::new();
  let mut next = 1usize;
  while let Some(n) = ready.pop() {
    rank.insert(n, next);
    next += 1;
    if let Some(bs) = succ.get(&n) {
      for b in bs.iter() {
        let d = indeg.get_mut(b).unwrap();
        *d -= 1;
        if *d == 0 {
          ready.push(*b);
        }
      }
    }
  }
  if rank.len() < nodes.len() && verdict == "ok" {
    let cyc: Vec<String> = nodes.iter().filter(|n| !rank.contains_key(n)).map(|n| sites.get(n).cloned().unwrap_or_default()).collect();
    verdict = format!("cycle:{}", cyc.join(">"));
  }
  let cert = if want_cert {
    format!("{} | {}", rank.iter().map(|(n, r)| format!("{}:{}", n, r)).collect::<Vec<_>>().join(","), trace.join(";"))
  } else {
    String::new()
  };
  (verdict, cert)
}

/// a scenario turns one execution's outcome into the payload text that is compared / co-simulated
pub trait Scenario: Send + Sync {
  /// uses the virtual clock (sleep / settle): explored with the random scheduler only
  fn timed(&self) -> bool {
    false
  }
  fn body(&self) -> Arc<dyn Fn() + Send + Sync>;
  fn render(&self, out: &Outcome) -> String;
}

fn build(e: &Sexp) -> Option<Box<dyn Scenario>> {
  let (h, a) = e.call()?;
  match h {
    "obs" => obs::build(a),
    "handoff" => handoff::build(a),
    "subjlts" => subjlts::build(a),
    "tovec" => tovec::build(a),
    "queue" => queue::build(a),
    "subj" => subj::build(a),
    "pipe" => pipe::build(a),
    "sctl" => sctl::build(a),
    "timedlts" => timedlts::build(a),
    _ => None,
  }
}

fn main() {
  std::panic::set_hook(Box::new(|_| {}));
  let args: Vec<String> = std::env::args().collect();
  // `rxh-conc exact <execution-seed> <strategy>` replays one recorded execution
  let exact = args.get(1).map(|s| s == "exact").unwrap_or(false);
  let seed: u64 = args.get(if exact { 2 } else { 1 }).and_then(|s| s.parse().ok()).unwrap_or(1);
  let iters: u64 = if exact { 1 } else { args.get(2).and_then(|s| s.parse().ok()).unwrap_or(100) };
  let strategy = args.get(3).cloned().unwrap_or_else(|| "random".to_string());
  // RXH_LOCKCERT=k: print the lock-order certificate of the first k distinct executions of every scenario
  let lockcert: usize = std::env::var("RXH_LOCKCERT").ok().and_then(|v| v.parse().ok()).unwrap_or(0);
  let stdin = std::io::stdin();
  let stdout = std::io::stdout();
  let mut out = stdout.lock();
  for line in stdin.lock().lines() {
    let line = match line {
      Ok(l) => l,
      Err(_) => break,
    };
    let line = line.trim().to_string();
    if line.is_empty() {
      continue;
    }
    let e = match sexp::parse(&line) {
      Some(e) => e,
      None => {
        let _ = writeln!(out, "PARSE-ERROR {}", line);
        continue;
      }
    };
    // (conc ID SCENARIO)
    let l = match e.list() {
      Some(l) if l.len() == 3 && l[0].atom() == Some("conc") => l.to_vec(),
      _ => {
        let _ = writeln!(out, "PARSE-ERROR {}", line);
        continue;
      }
    };
    let id = l[1].atom().unwrap_or("?").to_string();
    let sc = match build(&l[2]) {
      Some(s) => s,
      None => {
        let _ = writeln!(out, "PARSE-ERROR {}", line);
        continue;
      }
    };
    let mut seen: HashMap<String, (u64, u64, String)> = HashMap::new(); // payload -> (first seed, count, strategy)
    let mut order: Vec<String> = Vec::new();
    for i in 0..iters {
      let s = if exact { seed } else { seed.wrapping_mul(1_000_003).wrapping_add(i) };
      let strat = if sc.timed() {
        // timed scenarios: uniform random choice, and (in `mixed`) every third execution the priority scheduler
        if strategy == "mixed" && i % 3 == 2 {
          "pri"
        } else if strategy == "pri" {
          "pri"
        } else {
          "random"
        }
      } else if strategy == "mixed" {
        if i % 3 == 2 {
          "pct"
        } else {
          "random"
        }
      } else {
        strategy.as_str()
      };
      let o = execute(s, strat, sc.body());
      let (lo, cert) = lock_order(&o.events, seen.len() < lockcert);
      let payload = format!("out={} lo={} {} | {}", o.status, lo, o.detail, sc.render(&o));
      match seen.get_mut(&payload) {
        Some(v) => v.1 += 1,
        None => {
          if seen.len() < lockcert {
            let _ = writeln!(out, "LOCKCERT {} seed={} | {}", id, s, cert);
          }
          seen.insert(payload.clone(), (s, 1, strat.to_string()));
          order.push(payload);
        }
      }
    }
    for p in order {
      let (s, n, st) = seen[&p].clone();
      let _ = writeln!(out, "{} | seed={} n={} strat={} | {}", id, s, n, st, p);
    }
    let _ = writeln!(out, "{} | done iterations={} distinct={}", id, iters, seen.len());
    let _ = out.flush();
  }
}
