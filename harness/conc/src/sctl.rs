//! Scenario `sctl`: k raw emitting threads push scripts into merge / take(n) / amb / zip; the facade's event log
//! is rendered as the label trace of the Lean LTSs `Rx.Conc.Sctl` (merge), `Rx.Conc.Take`, `Rx.Conc.Amb`,
//! `Rx.Conc.Zip` (lean/RxVerif/Conc/Sctl.lean, TakeAmbZip.lean) for co-simulation (`rxmodel cosim sctl|take|amb|zip`).
//!   (sctl merge (in 1 2 c) (in 11 e5) (unsub))     inputs always end with c / eN; optional unsubscriber thread
//!                                                  (`(unsub 20)`: it yields 20 times before it calls unsubscribe)
//!   (sctl take 2 (in 1 2 c) (in 3 4))              all threads share the ONE observer take hands to its source
//!   (sctl amb (in 1 2 c) (in 11 c))                next / complete only
//!   (sctl zip (in 1 2) (in 11 12) (unsub))         next only (+ optional unsubscriber = the LTS's `unsub` label)
//!
//! Rendering.  Every label is ONE recorded event (its position in the global log orders the labels):
//!   * a lock acquisition `acq_r` / `acq_w` / the release of the `unscribers` read guard, on a lock identified by
//!     creation order (subscriber slots, inner observers' slots, `unscribers`, `on_finalize`, the operator's own cell),
//!   * or a harness mark (call start, callback start / return).
//! The per-thread event stream is parsed along the call structure; the parser only NAMES events (`<tid> <act>`), it
//! never invents one: an event that does not fit is rendered as `<tid> ?<event>` which no LTS accepts.
//! Folded (no label of their own, because the LTS abstracts them; listed per LTS in the Lean files):
//!   * `is_subscribed()` = up to three slot reads -> ONE label, placed at the first read if the result is true and at
//!     the (last =) failing read if it is false (`Sctl.isSub_linearizable`); the result is read off the next event;
//!   * every `rel` except the release of the `unscribers` read lock taken by `finalize` (`funlock`);
//!   * the `fn_on_unsubscribe` cell of the inner observers (None) and of the subscriber (the hook that runs `finalize`);
//!   * locks the LTSs do not mention at all: `serial`, the source / Subscription function wrappers.
use crate::sexp::Sexp;
use crate::{Outcome, Scenario};
use another_rxrust::prelude::*;
use another_rxrust::verif_facade as facade;
use std::collections::HashMap;
use std::sync::{Arc, Mutex};

#[derive(Clone, Copy, PartialEq, Debug)]
enum Op {
  Merge,
  Take(usize),
  Amb,
  Zip,
}

#[derive(Clone, Copy, PartialEq, Debug)]
enum End {
  None,
  Complete,
  Error(i64),
}

#[derive(Clone, Debug)]
struct Input {
  items: Vec<i64>,
  end: End,
}

pub struct Sctl {
  op: Op,
  inputs: Vec<Input>,
  unsub: bool,
  unsub_delay: usize,
}

#[derive(Debug)]
struct EP(i64);

pub fn build(a: &[Sexp]) -> Option<Box<dyn Scenario>> {
  let mut rest = a;
  let op = match rest.first()?.atom()? {
    "merge" => Op::Merge,
    "amb" => Op::Amb,
    "zip" => Op::Zip,
    "take" => {
      let n = rest.get(1)?.nat()?;
      rest = &rest[1..];
      Op::Take(n)
    }
    _ => return None,
  };
  rest = &rest[1..];
  let mut inputs = Vec::new();
  let mut unsub = false;
  let mut unsub_delay = 0;
  for x in rest {
    let (h, xs) = x.call()?;
    match h {
      "unsub" => {
        unsub = true;
        unsub_delay = xs.first().and_then(|d| d.nat()).unwrap_or(0);
      }
      "in" => {
        let mut items = Vec::new();
        let mut end = End::None;
        for (n, t) in xs.iter().enumerate() {
          let at = t.atom()?;
          if let Ok(v) = at.parse::<i64>() {
            items.push(v);
          } else if n + 1 == xs.len() && at == "c" {
            end = End::Complete;
          } else if n + 1 == xs.len() && at.starts_with('e') {
            end = End::Error(at[1..].parse().ok()?);
          } else {
            return None;
          }
        }
        inputs.push(Input { items, end });
      }
      _ => return None,
    }
  }
  if inputs.is_empty() {
    return None;
  }
  // what the LTSs can express
  let ok = match op {
    Op::Merge => inputs.iter().all(|i| i.end != End::None),
    Op::Take(_) | Op::Amb => !unsub && inputs.iter().all(|i| !matches!(i.end, End::Error(_))),
    Op::Zip => inputs.iter().all(|i| i.end == End::None),
  };
  if !ok {
    return None;
  }
  Some(Box::new(Sctl { op, inputs, unsub, unsub_delay }))
}

fn h(text: String) {
  facade::log("h", 0, "", text);
}

fn subscribe<T: Clone + Send + Sync + 'static>(o: Observable<'static, T>, show: fn(&T) -> String) -> Subscription<'static> {
  h("subscribe".into());
  let s = o.subscribe(
    move |x: T| {
      h(format!("cbStart n{}", show(&x)));
      h("cbRet".into());
    },
    |e: RxError| {
      h(format!("cbStart e{}", e.downcast_ref::<EP>().map(|p| p.0).unwrap_or(-1)));
      h("cbRet".into());
    },
    || {
      h("cbStart c".into());
      h("cbRet".into());
    },
  );
  h("subscribed".into());
  s
}

impl Scenario for Sctl {
  fn body(&self) -> Arc<dyn Fn() + Send + Sync> {
    let op = self.op;
    let inputs = self.inputs.clone();
    let unsub = self.unsub;
    let unsub_delay = self.unsub_delay;
    Arc::new(move || {
      let k = inputs.len();
      let nsrc = if let Op::Take(_) = op { 1 } else { k };
      let stash: Arc<Mutex<Vec<Option<Observer<'static, i64>>>>> = Arc::new(Mutex::new(vec![None; nsrc]));
      let srcs: Vec<Observable<'static, i64>> = (0..nsrc)
        .map(|m| {
          let st = stash.clone();
          Observable::create(move |s: Observer<'static, i64>| {
            h(format!("stash {}", m));
            st.lock().unwrap_or_else(|e| e.into_inner())[m] = Some(s);
          })
        })
        .collect();
      let sub = match op {
        Op::Merge => subscribe(srcs[0].merge(&srcs[1..]), |x: &i64| x.to_string()),
        Op::Amb => subscribe(srcs[0].amb(&srcs[1..]), |x: &i64| x.to_string()),
        Op::Take(n) => subscribe(srcs[0].take(n), |x: &i64| x.to_string()),
        Op::Zip => subscribe(srcs[0].zip(&srcs[1..]), |x: &Vec<i64>| {
          format!("[{}]", x.iter().map(|v| v.to_string()).collect::<Vec<_>>().join(","))
        }),
      };
      let obs: Vec<Option<Observer<'static, i64>>> = stash.lock().unwrap_or_else(|e| e.into_inner()).clone();
      let mut hs = Vec::new();
      for (m, inp) in inputs.iter().enumerate() {
        let ob = match obs.get(if nsrc == 1 { 0 } else { m }).cloned().flatten() {
          Some(o) => o,
          None => continue,
        };
        let inp = inp.clone();
        hs.push(shuttle::thread::spawn(move || {
          h(format!("input {}", m));
          for v in inp.items.iter() {
            h(format!("callStart next {}", v));
            ob.next(*v);
            h("callRet".into());
          }
          match inp.end {
            End::Complete => {
              h("callStart complete".into());
              ob.complete();
              h("callRet".into());
            }
            End::Error(e) => {
              h(format!("callStart error {}", e));
              ob.error(RxError::from_error(EP(e)));
              h("callRet".into());
            }
            End::None => {}
          }
        }));
      }
      if unsub {
        let sub = sub.clone();
        hs.push(shuttle::thread::spawn(move || {
          h("unsubscriber".into());
          for _ in 0..unsub_delay {
            shuttle::thread::yield_now();
          }
          h("callStart unsub".into());
          sub.unsubscribe();
          h("callRet".into());
        }));
      }
      for t in hs {
        let _ = t.join();
      }
    })
  }

  fn render(&self, out: &Outcome) -> String {
    render(self, out)
  }
}

// ------------------------------------------------------------------------------------------------------------------
// rendering

/// the locks the LTSs talk about
#[derive(Clone, Copy, PartialEq, Eq, Debug)]
enum L {
  SN,
  SE,
  SC,
  SH,
  IN(usize),
  IE(usize),
  IC(usize),
  IH(usize),
  UW(usize),
  U,
  F,
  Cell,
}

impl L {
  fn show(&self) -> String {
    match self {
      L::SN => "sN".into(),
      L::SE => "sE".into(),
      L::SC => "sC".into(),
      L::SH => "sHook".into(),
      L::IN(j) => format!("iN{}", j),
      L::IE(j) => format!("iE{}", j),
      L::IC(j) => format!("iC{}", j),
      L::IH(j) => format!("iHook{}", j),
      L::UW(j) => format!("unsubFn{}", j),
      L::U => "unscribers".into(),
      L::F => "onFinalize".into(),
      L::Cell => "cell".into(),
    }
  }
}

#[derive(Clone, PartialEq, Debug)]
enum K {
  R(L),
  W(L),
  Rel(L),
  M(String),
}

impl K {
  fn show(&self) -> String {
    match self {
      K::R(l) => format!("r:{}", l.show()),
      K::W(l) => format!("w:{}", l.show()),
      K::Rel(l) => format!("rel:{}", l.show()),
      K::M(s) => format!("m:{}", s.replace(' ', "_")),
    }
  }
}

#[derive(Clone, Debug)]
struct Tok {
  pos: usize,
  k: K,
}

struct P<'a> {
  toks: &'a [Tok],
  i: usize,
  tid: usize,
  out: Vec<(usize, String)>,
  failed: bool,
  /// the call in progress returned early in a way the LTS represents by "never scheduled again"
  parked: bool,
}

impl<'a> P<'a> {
  fn peek(&self) -> Option<&K> {
    self.toks.get(self.i).map(|t| &t.k)
  }
  fn peek_is(&self, k: &K) -> bool {
    self.peek() == Some(k)
  }
  fn peek_mark(&self, prefix: &str) -> bool {
    matches!(self.peek(), Some(K::M(s)) if s.starts_with(prefix))
  }
  fn emit(&mut self, pos: usize, act: &str) {
    self.out.push((pos, format!("{} {}", self.tid, act)));
  }
  fn fail(&mut self) {
    if self.failed {
      return;
    }
    self.failed = true;
    let (pos, text) = match self.toks.get(self.i) {
      Some(t) => (t.pos, t.k.show()),
      None => (self.toks.last().map(|t| t.pos).unwrap_or(0), "eof".to_string()),
    };
    self.out.push((pos, format!("{} ?{}", self.tid, text)));
    self.i = self.toks.len();
  }
  /// consume `k`; label it `act` (if any); otherwise the thread's rendering fails here
  fn take(&mut self, k: K, act: Option<&str>) -> Option<usize> {
    if self.failed {
      return None;
    }
    if self.peek_is(&k) {
      let pos = self.toks[self.i].pos;
      self.i += 1;
      if let Some(a) = act {
        self.emit(pos, a);
      }
      Some(pos)
    } else {
      self.fail();
      None
    }
  }
  fn take_mark(&mut self, prefix: &str, act: Option<&str>) -> Option<String> {
    if self.failed {
      return None;
    }
    if self.peek_mark(prefix) {
      let t = self.toks[self.i].clone();
      self.i += 1;
      if let Some(a) = act {
        self.emit(t.pos, a);
      }
      match t.k {
        K::M(s) => Some(s),
        _ => None,
      }
    } else {
      self.fail();
      None
    }
  }
  fn call_ret(&mut self) {
    self.take_mark("callRet", None);
  }

  /// `is_subscribed()`: 1..3 slot reads, ONE label.  Result: fewer than three reads = false; three reads = decided
  /// by what the thread does next (the callers' false branches all continue with `finalize` [r:unscribers], the
  /// `on_finalize` write, or return).
  fn is_sub(&mut self, act: &str) -> bool {
    let p1 = match self.take(K::R(L::SN), None) {
      Some(p) => p,
      None => return false,
    };
    let mut reads = vec![p1];
    if self.peek_is(&K::R(L::SE)) {
      reads.push(self.take(K::R(L::SE), None).unwrap_or(0));
      if self.peek_is(&K::R(L::SC)) {
        reads.push(self.take(K::R(L::SC), None).unwrap_or(0));
      }
    }
    let res = reads.len() == 3
      && !(self.peek_is(&K::R(L::U)) || self.peek_is(&K::W(L::F)) || self.peek_mark("callRet") || self.peek().is_none());
    let pos = if res { reads[0] } else { *reads.last().unwrap() };
    self.emit(pos, act);
    res
  }

  /// `StreamController::finalize`.  `Fin::Sctl` / `Fin::Amb` = one label per step of the fine-grained LTSs (Amb: an inner
  /// observer is its fn_next only; the `is_subscribed` test is its last step `fend`; `on_finalize` folded);
  /// `Fin::One(act)` = ONE label at its first event, `Fin::Silent` = none; the shape is checked in every mode.
  fn finalize(&mut self, mode: Fin) {
    let mark = self.out.len();
    let amb = mode == Fin::Amb;
    let first = self.take(K::R(L::U), Some("flock"));
    loop {
      let j = match self.peek() {
        Some(K::R(L::UW(j))) => *j,
        _ => break,
      };
      self.take(K::R(L::UW(j)), Some(&format!("fpick {}", j)));
      self.take(K::W(L::IN(j)), Some(if amb { "fu" } else { "fu1" }));
      self.take(K::W(L::IE(j)), if amb { None } else { Some("fu2") });
      self.take(K::W(L::IC(j)), if amb { None } else { Some("fu3") });
      self.take(K::R(L::IH(j)), None);
      self.take(K::W(L::IH(j)), None);
    }
    self.take(K::Rel(L::U), Some("funlock"));
    self.take(K::W(L::U), Some("fclear"));
    self.take(K::Rel(L::U), None);
    if self.is_sub(if amb { "fend" } else { "fsub" }) {
      // finalize -> subscriber.unsubscribe(): not elaborated by any of the LTSs (`uDead`)
      self.fail();
      return;
    }
    self.take(K::W(L::F), if amb { None } else { Some("fonfin") });
    if self.failed {
      return;
    }
    match mode {
      Fin::Sctl | Fin::Amb => {}
      Fin::One(act) => {
        self.out.truncate(mark);
        if let Some(p) = first {
          self.emit(p, act);
        }
      }
      Fin::Silent => self.out.truncate(mark),
    }
  }
}

#[derive(Clone, Copy, PartialEq)]
enum Fin {
  Sctl,
  Amb,
  One(&'static str),
  Silent,
}

/// names of the tracked locks, from the setup the MAIN thread performs before the scenario threads start
struct Ids {
  map: HashMap<usize, L>,
  /// harness thread index m -> serial of the inner observer it drives
  serial_of_src: Vec<usize>,
  problem: Option<String>,
}

fn identify(sc: &Sctl, out: &Outcome) -> Ids {
  let mut map = HashMap::new();
  let mut problem = None;
  let main: Vec<&facade::Event> = out.events.iter().filter(|e| e.tid == 0).collect();
  // subscriber slots: the three reads of `observer.is_subscribed()` in `inner_subscribe` right after "subscribe"
  let mut sub_at = None;
  for (n, e) in main.iter().enumerate() {
    if e.kind == "h" && e.payload == "subscribe" {
      sub_at = Some(n);
    }
  }
  let reads_after = |from: usize, cnt: usize| -> Vec<usize> {
    main.iter().skip(from).filter(|e| e.kind == "acq_r").take(cnt).map(|e| e.obj).collect()
  };
  match sub_at {
    Some(n) => {
      let r = reads_after(n, 3);
      if r.len() == 3 && r[1] == r[0] + 1 && r[2] == r[0] + 2 {
        map.insert(r[0], L::SN);
        map.insert(r[1], L::SE);
        map.insert(r[2], L::SC);
        map.insert(r[2] + 1, L::SH);
      } else {
        problem = Some("subscriber slots not found".to_string());
      }
    }
    None => problem = Some("no subscribe mark".to_string()),
  }
  // inner observers: `inner_subscribe(inner)` = three slot reads + the fetch of the source function, then "stash m"
  let mut inner: Vec<(usize, usize)> = Vec::new(); // (m, id of fn_next)
  for (n, e) in main.iter().enumerate() {
    if e.kind == "h" && e.payload.starts_with("stash ") {
      let m: usize = e.payload[6..].parse().unwrap_or(0);
      let before: Vec<usize> = main[..n].iter().rev().filter(|e| e.kind == "acq_r").take(4).map(|e| e.obj).collect();
      if before.len() == 4 && before[2] == before[3] + 1 && before[1] == before[3] + 2 {
        inner.push((m, before[3]));
      } else {
        problem = Some(format!("inner observer of source {} not found", m));
      }
    }
  }
  let mut sorted: Vec<usize> = inner.iter().map(|x| x.1).collect();
  sorted.sort();
  let nsrc = if let Op::Take(_) = sc.op { 1 } else { sc.inputs.len() };
  let mut serial_of_src = vec![usize::MAX; nsrc];
  for (m, id) in inner.iter() {
    let j = sorted.iter().position(|x| x == id).unwrap_or(0);
    if *m < nsrc {
      serial_of_src[*m] = j;
    }
    map.insert(*id, L::IN(j));
    map.insert(*id + 1, L::IE(j));
    map.insert(*id + 2, L::IC(j));
    map.insert(*id + 3, L::IH(j));
    map.insert(*id + 4, L::UW(j));
  }
  if serial_of_src.iter().any(|s| *s == usize::MAX) {
    problem = Some("a source was not subscribed".to_string());
  }
  // the controller's locks (created in the order serial, unscribers, on_finalize) and the operator's cell, by site
  let mut ser: Option<usize> = None;
  for e in out.events.iter() {
    if e.site.starts_with("stream_controller:") && e.obj > 0 {
      ser = Some(ser.map_or(e.obj, |s: usize| s.min(e.obj)));
    }
    if (e.site.starts_with("take:") || e.site.starts_with("amb:") || e.site.starts_with("zip:")) && e.obj > 0 {
      map.insert(e.obj, L::Cell);
    }
  }
  match ser {
    Some(s) => {
      map.insert(s + 1, L::U);
      map.insert(s + 2, L::F);
    }
    None => problem = Some("no StreamController lock seen".to_string()),
  }
  // sanity: sites of what was named
  for e in out.events.iter() {
    if let Some(l) = map.get(&e.obj) {
      let want = match l {
        L::SH | L::IH(_) => "observer:",
        L::U | L::F => "stream_controller:",
        L::Cell => "",
        _ => "function_wrapper:",
      };
      if !e.site.starts_with(want) {
        problem = Some(format!("lock {} named {} was created at {}", e.obj, l.show(), e.site));
      }
    }
  }
  Ids { map, serial_of_src, problem }
}

fn render(sc: &Sctl, out: &Outcome) -> String {
  let ids = identify(sc, out);
  let k = sc.inputs.len();
  // harness thread roles from their first mark
  let mut role: HashMap<usize, usize> = HashMap::new(); // shuttle tid -> harness index (k = unsubscriber)
  for e in out.events.iter() {
    if e.kind == "h" {
      if let Some(m) = e.payload.strip_prefix("input ") {
        role.insert(e.tid, m.parse().unwrap_or(0));
      } else if e.payload == "unsubscriber" {
        role.insert(e.tid, k);
      }
    }
  }
  let take = matches!(sc.op, Op::Take(_));
  // LTS thread of harness thread m: its serial (merge / amb / zip), itself (take: one shared observer)
  let lts_tid = |m: usize| -> usize {
    if m >= k || take {
      m
    } else {
      ids.serial_of_src.get(m).copied().unwrap_or(m)
    }
  };
  let mut toks: HashMap<usize, Vec<Tok>> = HashMap::new();
  let mut impl_log: Vec<String> = Vec::new();
  for (pos, e) in out.events.iter().enumerate() {
    let m = match role.get(&e.tid) {
      Some(m) => *m,
      None => continue,
    };
    let kk = match e.kind {
      "h" => {
        if e.payload.starts_with("input ") || e.payload == "unsubscriber" {
          continue;
        }
        if let Some(ev) = e.payload.strip_prefix("cbStart ") {
          impl_log.push(format!("{}:{}", lts_tid(m), ev));
        }
        K::M(e.payload.clone())
      }
      "acq_r" | "acq_w" | "rel" => match ids.map.get(&e.obj) {
        Some(l) => match e.kind {
          "acq_r" => K::R(*l),
          "acq_w" => K::W(*l),
          _ => {
            if *l == L::U {
              K::Rel(*l)
            } else {
              continue;
            }
          }
        },
        None => continue,
      },
      _ => continue,
    };
    toks.entry(m).or_default().push(Tok { pos, k: kk });
  }
  let mut labels: Vec<(usize, String)> = Vec::new();
  let mut parked: Vec<usize> = Vec::new();
  let empty = Vec::new();
  for m in 0..(k + if sc.unsub { 1 } else { 0 }) {
    let ts = toks.get(&m).unwrap_or(&empty);
    let mut p = P { toks: ts, i: 0, tid: lts_tid(m), out: Vec::new(), failed: false, parked: false };
    let serial = if take { 0 } else { lts_tid(m) };
    while p.i < ts.len() && !p.failed {
      match sc.op {
        Op::Merge => parse_merge_call(&mut p, serial),
        Op::Take(_) => parse_take_call(&mut p),
        Op::Amb => parse_amb_call(&mut p, serial),
        Op::Zip => parse_zip_call(&mut p, serial),
      }
    }
    if p.parked {
      parked.push(p.tid);
    }
    labels.extend(p.out);
  }
  labels.sort_by_key(|x| x.0);
  // scripts in LTS thread order
  let mut scripts: Vec<String> = vec![String::new(); k];
  for (m, inp) in sc.inputs.iter().enumerate() {
    let mut t: Vec<String> = inp.items.iter().map(|v| v.to_string()).collect();
    match inp.end {
      End::Complete => t.push("c".into()),
      End::Error(e) => t.push(format!("e{}", e)),
      End::None => {}
    }
    let at = lts_tid(m);
    if at < k {
      scripts[at] = t.join(" ");
    }
  }
  if sc.unsub && sc.op == Op::Merge {
    scripts.push("unsub".to_string());
  }
  let opname = match sc.op {
    Op::Merge => "merge".to_string(),
    Op::Take(n) => format!("take {}", n),
    Op::Amb => "amb".to_string(),
    Op::Zip => "zip".to_string(),
  };
  let mut hdr = format!("{} / {}", opname, scripts.join(" / "));
  if let Some(pb) = ids.problem {
    hdr = format!("{} / BAD-IDS {}", hdr, pb);
  }
  let parked_s = parked.iter().map(|x| x.to_string()).collect::<Vec<_>>().join(",");
  let mut res = format!(
    "{} ; impl={} parked={} ; {}",
    hdr,
    impl_log.join(","),
    parked_s,
    if labels.is_empty() { "-".to_string() } else { labels.iter().map(|x| x.1.clone()).collect::<Vec<_>>().join(";") }
  );
  if std::env::var("SCTL_RAW").is_ok() {
    let mut raw: Vec<String> = Vec::new();
    for (pos, e) in out.events.iter().enumerate() {
      raw.push(format!("{}:t{} {} {} {} {}", pos, e.tid, e.kind, e.obj, e.site, e.payload));
    }
    res = format!("{} ; RAW {}", res, raw.join(" , "));
  }
  res
}

// ---- merge (Conc/Sctl.lean) -----------------------------------------------------------------------------------------

fn parse_merge_call(p: &mut P, i: usize) {
  let call = match p.take_mark("callStart", Some("call")) {
    Some(c) => c,
    None => return,
  };
  let what = call.split(' ').nth(1).unwrap_or("").to_string();
  match what.as_str() {
    "next" => {
      p.take(K::R(L::IN(i)), Some("fetchI"));
      if p.peek_mark("callRet") {
        p.call_ret();
        return;
      }
      if p.is_sub("nsub") {
        p.take(K::R(L::SN), Some("fetch"));
        if !p.peek_mark("callRet") {
          p.take_mark("cbStart n", Some("nstart"));
          p.take_mark("cbRet", Some("nret"));
        }
      } else {
        p.finalize(Fin::Sctl);
      }
      p.call_ret();
    }
    "complete" | "error" => {
      let c = what == "complete";
      p.take(K::W(L::IN(i)), Some("claimI"));
      if p.peek_mark("callRet") {
        p.call_ret();
        return;
      }
      p.take(K::W(if c { L::IE(i) } else { L::IC(i) }), Some("clrI"));
      p.take(K::W(if c { L::IC(i) } else { L::IE(i) }), Some("takeI"));
      if p.peek_mark("callRet") {
        p.call_ret();
        return;
      }
      if p.is_sub("tsub") {
        if c {
          p.take(K::W(L::U), Some("remove"));
          p.take(K::Rel(L::U), None);
          if p.peek_mark("callRet") {
            p.call_ret();
            return;
          }
        }
        subscriber_terminal(p, c);
      }
      p.finalize(Fin::Sctl);
      p.call_ret();
    }
    "unsub" => {
      p.take(K::W(L::SN), Some("un"));
      p.take(K::W(L::SE), Some("ue"));
      p.take(K::W(L::SC), Some("uc"));
      p.take(K::R(L::SH), None);
      p.finalize(Fin::Sctl);
      p.take(K::W(L::SH), None);
      p.call_ret();
    }
    _ => p.fail(),
  }
}

/// `subscriber.complete()` / `subscriber.error(e)`: claim fn_next; clear the other terminal slot; take the own one;
/// callback start / return
fn subscriber_terminal(p: &mut P, complete: bool) {
  p.take(K::W(L::SN), Some("claim"));
  let (clr, own) = if complete { (L::SE, L::SC) } else { (L::SC, L::SE) };
  if p.peek_is(&K::W(clr)) {
    p.take(K::W(clr), Some("clr"));
    p.take(K::W(own), Some("take"));
    if p.peek_mark("cbStart") {
      p.take_mark(if complete { "cbStart c" } else { "cbStart e" }, Some("tstart"));
      p.take_mark("cbRet", Some("tret"));
    }
  }
}

// ---- take (Conc/TakeAmbZip.lean, Take) ---------------------------------------------------------------------------------
// folded: the inner observer is its fn_next only (clears of fn_error / fn_complete dropped); `finalize` = ONE label at its
// first event (`fin1` inside sink_next / sink_complete, `fin2` = the explicit call of take.rs:49); when sink_next found
// the subscriber gone and the call still has to complete, `fin2` = the remaining abort + sink_complete + finalize;
// a `complete` that claimed the inner fn_next but found the inner fn_complete cleared does not call the closure: `parked`.

/// `upstream_abort_observe(serial)`: remove under the write lock (`abort1`); if the key was there, unsubscribe the inner
/// observer (`abort2` = the clear of its fn_next)
fn abort(p: &mut P, i: usize, a1: Option<&str>, a2: Option<&str>) {
  p.take(K::W(L::U), a1);
  if p.peek_is(&K::R(L::UW(i))) {
    p.take(K::R(L::UW(i)), None);
    p.take(K::W(L::IN(i)), a2);
    p.take(K::W(L::IE(i)), None);
    p.take(K::W(L::IC(i)), None);
    p.take(K::R(L::IH(i)), None);
    p.take(K::W(L::IH(i)), None);
  }
  p.take(K::Rel(L::U), None);
}

/// `obs.complete()` on an inner observer represented by its fn_next: claim; the other two slots are folded.
/// false = the closure was not called (claim lost: plain return; own slot gone: `parked`)
fn inner_complete(p: &mut P, i: usize) -> bool {
  p.take(K::W(L::IN(i)), Some("claimI"));
  if p.peek_mark("callRet") {
    return false;
  }
  p.take(K::W(L::IE(i)), None);
  p.take(K::W(L::IC(i)), None);
  if p.peek_mark("callRet") {
    p.parked = true;
    return false;
  }
  !p.failed
}

fn parse_take_call(p: &mut P) {
  let call = match p.take_mark("callStart", Some("call")) {
    Some(c) => c,
    None => return,
  };
  match call.split(' ').nth(1).unwrap_or("") {
    "next" => {
      p.take(K::R(L::IN(0)), Some("fetchI"));
      if p.peek_mark("callRet") {
        p.call_ret();
        return;
      }
      p.take(K::W(L::Cell), Some("count"));
      let mut aborted = false;
      if p.peek_is(&K::R(L::SN)) {
        // emit
        if p.is_sub("sub") {
          p.take(K::R(L::SN), Some("fetch"));
          if p.peek_mark("cbStart") {
            p.take_mark("cbStart n", Some("start"));
            p.take_mark("cbRet", Some("cb"));
          }
        } else {
          p.finalize(Fin::One("fin1"));
          if p.peek_is(&K::W(L::U)) {
            // the remaining part, collapsed into `fin2`
            abort(p, 0, Some("fin2"), None);
            let keep = p.out.len();
            if p.is_sub("x") {
              p.fail();
            }
            p.finalize(Fin::Silent);
            p.finalize(Fin::Silent);
            if !p.failed {
              p.out.truncate(keep);
            }
            aborted = true;
          }
        }
      }
      if !aborted && p.peek_is(&K::W(L::U)) {
        abort(p, 0, Some("abort1"), Some("abort2"));
        if p.is_sub("tsub") {
          p.take(K::W(L::U), Some("remove"));
          p.take(K::Rel(L::U), None);
          if p.peek_mark("callRet") || p.peek_is(&K::R(L::U)) {
            // `len() == 0` false: impossible with one serial
            p.fail();
          }
          subscriber_terminal(p, true);
        }
        p.finalize(Fin::One("fin1"));
        p.finalize(Fin::One("fin2"));
      }
      p.call_ret();
    }
    "complete" => {
      if !inner_complete(p, 0) {
        p.call_ret();
        return;
      }
      if p.is_sub("tsub") {
        p.take(K::W(L::U), Some("remove"));
        p.take(K::Rel(L::U), None);
        if p.peek_mark("callRet") {
          p.fail();
        }
        subscriber_terminal(p, true);
      }
      p.finalize(Fin::One("fin1"));
      p.call_ret();
    }
    _ => p.fail(),
  }
}

// ---- amb (Conc/TakeAmbZip.lean, Amb) -----------------------------------------------------------------------------------
// folded: the inner observer is its fn_next only (clears of fn_error / fn_complete and its hook cell dropped; a `complete`
// that claimed the inner fn_next but found the inner fn_complete cleared does not call the closure: `parked`);
// `finalize` is fine-grained (flock, fpick j, fu, funlock, fclear, fend = its `is_subscribed` test); `on_finalize` dropped.

fn parse_amb_call(p: &mut P, i: usize) {
  let call = match p.take_mark("callStart", Some("call")) {
    Some(c) => c,
    None => return,
  };
  match call.split(' ').nth(1).unwrap_or("") {
    "next" => {
      p.take(K::R(L::IN(i)), Some("fetchI"));
      if p.peek_mark("callRet") {
        p.call_ret();
        return;
      }
      p.take(K::W(L::Cell), Some("win"));
      if p.peek_is(&K::W(L::U)) {
        abort(p, i, Some("abort1"), Some("abort2"));
      } else if p.is_sub("sub") {
        p.take(K::R(L::SN), Some("fetch"));
        if p.peek_mark("cbStart") {
          p.take_mark("cbStart n", Some("start"));
          p.take_mark("cbRet", Some("cb"));
        }
      } else {
        amb_finalize(p);
      }
      p.call_ret();
    }
    "complete" => {
      if !inner_complete(p, i) {
        p.call_ret();
        return;
      }
      p.take(K::W(L::Cell), Some("winC"));
      if p.peek_is(&K::W(L::U)) {
        abort(p, i, Some("abort1"), Some("abort2"));
      } else {
        if p.is_sub("fsub") {
          subscriber_terminal(p, true);
        }
        amb_finalize(p);
      }
      p.call_ret();
    }
    _ => p.fail(),
  }
}

fn amb_finalize(p: &mut P) {
  p.finalize(Fin::Amb);
}

// ---- zip (Conc/TakeAmbZip.lean, Zip) -----------------------------------------------------------------------------------
// folded: the fetch of the inner fn_next (the LTS's `idle` step; a call that finds it cleared — after the unsubscriber's
// finalize — is not offered to the LTS at all: `parked`), `finalize` inside sink_next (no label), and the whole
// unsubscriber thread except the clear of the subscriber's fn_next = the LTS's environment label `unsub`.

fn parse_zip_call(p: &mut P, i: usize) {
  let at = p.out.len();
  let call = match p.take_mark("callStart", Some("call")) {
    Some(c) => c,
    None => return,
  };
  match call.split(' ').nth(1).unwrap_or("") {
    "next" => {
      p.take(K::R(L::IN(i)), None);
      if p.peek_mark("callRet") {
        p.out.truncate(at);
        p.parked = true;
        p.call_ret();
        return;
      }
      p.take(K::W(L::Cell), Some("push"));
      loop {
        p.take(K::W(L::Cell), Some("get"));
        if p.failed || p.peek_mark("callRet") {
          break;
        }
        if !p.is_sub("chk") {
          break;
        }
        if p.is_sub("sub") {
          p.take(K::R(L::SN), Some("fetch"));
          if p.peek_mark("cbStart") {
            p.take_mark("cbStart n", Some("start"));
            p.take_mark("cbRet", Some("cb"));
          }
        } else {
          p.finalize(Fin::Silent);
        }
      }
      p.call_ret();
    }
    "unsub" => {
      p.out.truncate(at);
      if let Some(pos) = p.take(K::W(L::SN), None) {
        p.out.push((pos, "unsub".to_string()));
      }
      p.take(K::W(L::SE), None);
      p.take(K::W(L::SC), None);
      p.take(K::R(L::SH), None);
      p.finalize(Fin::Silent);
      p.take(K::W(L::SH), None);
      p.call_ret();
    }
    _ => p.fail(),
  }
}
