//! Scenario `queue`: posters (and tasks) call post / abort on one NewThreadScheduler.  Rendered as the
//! label trace of the Lean LTS `Rx.Queue` (lean/RxVerif/Conc/Queue.lean) for co-simulation, plus the
//! task start / end stamps for the C08 oracle.
//!   (queue (poster (post 1) (post 2) abort) (poster (post 3)) (body 1 (post 10)))
use crate::sexp::Sexp;
use crate::{Outcome, Scenario};
use another_rxrust::prelude::*;
use another_rxrust::schedulers::scheduler::IScheduler;
use another_rxrust::verif_facade as facade;
use std::collections::HashMap;
use std::sync::Arc;

#[derive(Clone, Debug)]
enum Call {
  Post(usize),
  Abort,
}

pub struct QueueSc {
  posters: Vec<Vec<Call>>,
  bodies: HashMap<usize, Vec<Call>>,
  text: String,
}

fn parse_calls(a: &[Sexp]) -> Option<Vec<Call>> {
  a.iter()
    .map(|c| {
      if c.atom() == Some("abort") {
        Some(Call::Abort)
      } else {
        let (h, x) = c.call()?;
        if h == "post" {
          Some(Call::Post(x.first()?.nat()?))
        } else {
          None
        }
      }
    })
    .collect()
}

fn calls_text(cs: &[Call]) -> String {
  cs.iter().map(|c| match c { Call::Post(t) => format!("post {}", t), Call::Abort => "abort".to_string() }).collect::<Vec<_>>().join("; ")
}

pub fn build(a: &[Sexp]) -> Option<Box<dyn Scenario>> {
  let mut posters = Vec::new();
  let mut bodies = HashMap::new();
  for x in a {
    let (h, rest) = x.call()?;
    match h {
      "poster" => posters.push(parse_calls(rest)?),
      "body" => {
        bodies.insert(rest.first()?.nat()?, parse_calls(&rest[1..])?);
      }
      _ => return None,
    }
  }
  let mut text = posters.iter().map(|p| format!("P:{}", calls_text(p))).collect::<Vec<_>>();
  let mut ks: Vec<_> = bodies.keys().copied().collect();
  ks.sort();
  for k in ks {
    text.push(format!("B{}:{}", k, calls_text(&bodies[&k])));
  }
  Some(Box::new(QueueSc { posters, bodies, text: text.join(" / ") }))
}

fn h(text: String) {
  facade::log("h", 0, "", text);
}

fn run_calls(sched: &schedulers::NewThreadScheduler<'static>, calls: &[Call], bodies: &Arc<HashMap<usize, Vec<Call>>>) {
  for c in calls {
    match c {
      Call::Post(t) => {
        let t = *t;
        let s2 = sched.clone();
        let b2 = bodies.clone();
        h("callStart".into());
        sched.post(move || {
          h(format!("taskStart {}", t));
          let empty = Vec::new();
          let body = b2.get(&t).unwrap_or(&empty).clone();
          run_calls(&s2, &body, &b2);
          h(format!("taskEnd {}", t));
        });
        h("callRet".into());
      }
      Call::Abort => {
        h("callStart".into());
        sched.abort();
        h("callRet".into());
      }
    }
  }
}

impl Scenario for QueueSc {
  fn body(&self) -> Arc<dyn Fn() + Send + Sync> {
    let posters = self.posters.clone();
    let bodies = Arc::new(self.bodies.clone());
    Arc::new(move || {
      // the scheduler is created first: its worker is the first thread spawned through the facade
      let sched = schedulers::NewThreadScheduler::new();
      let mut hs = Vec::new();
      for (i, p) in posters.iter().enumerate() {
        let p = p.clone();
        let sched = sched.clone();
        let bodies = bodies.clone();
        hs.push(shuttle::thread::spawn(move || {
          h(format!("poster {}", i + 1));
          run_calls(&sched, &p, &bodies);
        }));
      }
      for t in hs {
        let _ = t.join();
      }
    })
  }

  fn render(&self, out: &Outcome) -> String {
    // thread roles: worker = the thread that logged the facade "start" first; posters by their stamp
    let mut worker: Option<usize> = None;
    let mut poster: HashMap<usize, usize> = HashMap::new();
    for e in out.events.iter() {
      if e.kind == "start" && worker.is_none() {
        worker = Some(e.tid);
      }
      if e.kind == "h" {
        if let Some(n) = e.payload.strip_prefix("poster ") {
          poster.insert(e.tid, n.parse().unwrap_or(0));
        }
      }
    }
    let mut labels: Vec<String> = Vec::new();
    let mut stamps: Vec<String> = Vec::new();
    let mut abort_set = false;
    // per thread: what the current call is, and whether the worker's `wait_while` condition just returned false
    let mut in_post: HashMap<usize, bool> = HashMap::new();
    let mut after_cond_f = false;
    let mut worker_exit_logged = false;
    for e in out.events.iter() {
      let tid = if Some(e.tid) == worker {
        0
      } else if let Some(p) = poster.get(&e.tid) {
        *p
      } else {
        continue;
      };
      let is_queue = e.site.starts_with("async_function_queue:");
      match e.kind {
        "h" => {
          if e.payload == "callStart" || e.payload == "callRet" {
            labels.push(format!("{} {}", tid, e.payload));
          } else if e.payload.starts_with("taskStart") || e.payload.starts_with("taskEnd") {
            labels.push(format!("{} {}", tid, e.payload.split(' ').next().unwrap_or("")));
            stamps.push(format!("{}:{}", e.tid, e.payload.replace(' ', "")));
          }
        }
        "lock" if is_queue => {
          labels.push(format!("{} lock", tid));
          in_post.insert(tid, true); // refined below when an abortWrite shows this is `stop`
        }
        "unlock" if is_queue => labels.push(format!("{} unlock", tid)),
        "acq_w" if is_queue => {
          // stop(): clear, then the abort write
          labels.push(format!("{} clear", tid));
          labels.push(format!("{} abortWrite", tid));
          abort_set = true;
          in_post.insert(tid, false);
        }
        "acq_r" if is_queue => {
          labels.push(format!("{} abortRead", tid));
          if after_cond_f && tid == 0 {
            // line 43: `if abort { None } else { pop_front() }`
            if !abort_set {
              labels.push("0 pop".to_string());
            }
            after_cond_f = false;
          }
        }
        "cond" if is_queue => {
          after_cond_f = e.payload == "F";
        }
        "wait" if is_queue => labels.push(format!("{} wait", tid)),
        "woken" if is_queue => {
          labels.push(format!("{} wake", tid));
          labels.push(format!("{} lock", tid));
        }
        "notify" if is_queue => {
          if in_post.get(&tid).copied().unwrap_or(true) {
            labels.push(format!("{} push", tid));
          }
          labels.push(format!("{} notify", tid));
        }
        "exit" => {
          if tid == 0 && !worker_exit_logged {
            labels.push("0 exit".to_string());
            worker_exit_logged = true;
          }
        }
        _ => {}
      }
    }
    format!("cfg={} ; {} ; {}", self.text, stamps.join(" "), labels.join(";"))
  }
}
