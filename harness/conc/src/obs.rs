//! Scenario `obs`: n threads call next/error/complete/unsubscribe/is_subscribed on ONE shared Observer.
//! The execution is rendered as the label trace of the Lean LTS `Rx.ConcObs` (lean/RxVerif/Conc/Observer.lean)
//! so that every explored schedule is co-simulated step by step.
//!   (obs (thread (next 1) complete) (thread (error 5)) (thread unsubscribe isSubscribed))
use crate::sexp::Sexp;
use crate::{Outcome, Scenario};
use another_rxrust::prelude::*;
use another_rxrust::verif_facade as facade;
use std::sync::Arc;

#[derive(Clone, Debug)]
enum Op {
  Next(i64),
  Error(i64),
  Complete,
  Unsubscribe,
  IsSubscribed,
}

pub struct Obs {
  threads: Vec<Vec<Op>>,
}

pub fn build(a: &[Sexp]) -> Option<Box<dyn Scenario>> {
  let mut threads = Vec::new();
  for t in a {
    let (h, ops) = t.call()?;
    if h != "thread" {
      return None;
    }
    let mut v = Vec::new();
    for o in ops {
      if let Some(at) = o.atom() {
        v.push(match at {
          "complete" => Op::Complete,
          "unsubscribe" => Op::Unsubscribe,
          "isSubscribed" => Op::IsSubscribed,
          _ => return None,
        });
      } else {
        let (k, x) = o.call()?;
        let n = x.first()?.int()?;
        v.push(match k {
          "next" => Op::Next(n),
          "error" => Op::Error(n),
          _ => return None,
        });
      }
    }
    threads.push(v);
  }
  Some(Box::new(Obs { threads }))
}

fn h(text: String) {
  facade::log("h", 0, "", text);
}

impl Scenario for Obs {
  fn body(&self) -> Arc<dyn Fn() + Send + Sync> {
    let threads = self.threads.clone();
    Arc::new(move || {
      // the Observer is the first thing created: its four locks get ids 1..4 (fn_next, fn_error,
      // fn_complete, fn_on_unsubscribe)
      let ob: Observer<'static, i64> = Observer::new(
        |_x: i64| {
          h("cbStart next".into());
          h("cbReturn next".into());
        },
        |_e| {
          h("cbStart error".into());
          h("cbReturn error".into());
        },
        || {
          h("cbStart complete".into());
          h("cbReturn complete".into());
        },
      );
      let mut hs = Vec::new();
      for ops in threads.iter() {
        let ob = ob.clone();
        let ops = ops.clone();
        hs.push(shuttle::thread::spawn(move || {
          for op in ops {
            match op {
              Op::Next(v) => {
                h(format!("callStart next {}", v));
                ob.next(v);
                h("callReturn".into());
              }
              Op::Error(e) => {
                h(format!("callStart error {}", e));
                ob.error(RxError::from_error(e));
                h("callReturn".into());
              }
              Op::Complete => {
                h("callStart complete".into());
                ob.complete();
                h("callReturn".into());
              }
              Op::Unsubscribe => {
                h("callStart unsubscribe".into());
                ob.unsubscribe();
                h("callReturn".into());
              }
              Op::IsSubscribed => {
                h("callStart isSubscribed".into());
                let b = ob.is_subscribed();
                h(format!("callReturn {}", b));
              }
            }
          }
        }));
      }
      for t in hs {
        let _ = t.join();
      }
    })
  }

  fn render(&self, out: &Outcome) -> String {
    // task ids: 0 = main, 1 = clock, 2.. = scenario threads
    let mut labels: Vec<String> = Vec::new();
    let slot = |obj: usize| match obj {
      1 => Some("next"),
      2 => Some("error"),
      3 => Some("complete"),
      4 => Some("teardown"),
      _ => None,
    };
    for e in out.events.iter() {
      if e.tid < 2 {
        continue;
      }
      let t = e.tid - 2;
      match e.kind {
        "h" => labels.push(format!("{} {}", t, e.payload)),
        "acq_r" => {
          if let Some(s) = slot(e.obj) {
            labels.push(format!("{} acqR {}", t, s));
          }
        }
        "acq_w" => {
          if let Some(s) = slot(e.obj) {
            labels.push(format!("{} acqW {}", t, s));
          }
        }
        _ => {}
      }
    }
    format!("n={} tear=F ; {}", self.threads.len(), labels.join(";"))
  }
}
