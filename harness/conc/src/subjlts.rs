//! Scenario `subjlts`: threads run lists of `next v | subscribe o | unsubscribe o` on ONE Subject /
//! ReplaySubject / BehaviorSubject; rendered as the label trace of the Lean LTSs `Rx.Conc.Subject`,
//! `Rx.Conc.Replay`, `Rx.Conc.Behavior` (lean/RxVerif/Conc/{Subject,Replay,Behavior}.lean) for co-simulation.
//!   (subjlts plain (pre 1) (thread (next 1) (next 2)) (thread (subscribe 1)) (thread (unsubscribe 0)))
//!   (subjlts replay (thread (next 1)) (thread (subscribe 0)) (thread (unsubscribe 0)))
//!   (subjlts behavior (init 0) (thread (next 1)) (thread (subscribe 0)))
//! `pre n` (plain only): observers 0..n-1 are registered by the main thread before the threads start.
//! Every observer is made by the harness (`Observer::new`) and handed to `Observable::verif_inner_subscribe`
//! (= the crate's `inner_subscribe`, what `Observable::subscribe` does with the observer it makes), so that
//! `unsubscribe o` is `Observer::unsubscribe` on that very observer, as in the LTSs.
//!
//! Labels are `<tid> <kind>`; each is derived from ONE recorded event of that thread:
//!   harness marks : `call` (before the call), `ret` (after a `next` call returned), `deliver`/`hdeliver` (the
//!                   subscriber's own callback started)
//!   lock events   : classified by the identity of the lock (probed / discovered, see `Ids`) and r/w
//! Folded / placed (said in the LTS headers too):
//!   * `is_subscribed()` = up to three slot reads -> ONE label, placed at the read that decided the result (the first
//!     read when the result is true, the read that found an empty slot when false); the result is read off from what
//!     the thread does next (recorded events), not assumed
//!   * reads of the `source` wrapper of an Observable, of `on_subscribe` / `on_unsubscribe` (always `None` here) and
//!     the `is_subscribed()` checks on a still thread-private forwarder are not LTS steps; nor is the read of the
//!     teardown's own FunctionWrapper by `f.call(())` right after `readTd` / `fReadTd` found it
//!   * `hdone` (Replay: replay loop exhausted) has no lock event: placed right before the thread's next label
//! Any other acquisition by a scenario thread is rendered `?…`, which the LTS side refuses (REJECT).
use crate::sexp::Sexp;
use crate::{Outcome, Scenario};
use another_rxrust::prelude::*;
use another_rxrust::verif_facade as facade;
use std::collections::{HashMap, HashSet};
use std::sync::Arc;

#[derive(Clone, Copy, Debug, PartialEq)]
enum Kind {
  Plain,
  Replay,
  Behavior,
}

#[derive(Clone, Debug)]
enum Op {
  Next(i64),
  Subscribe(usize),
  Unsubscribe(usize),
}

pub struct SubjLts {
  kind: Kind,
  pre: usize,
  init: i64,
  nobs: usize,
  threads: Vec<Vec<Op>>,
}

#[derive(Clone)]
enum Sbj {
  Plain(subjects::Subject<'static, i64>),
  Replay(subjects::ReplaySubject<'static, i64>),
  Behavior(subjects::BehaviorSubject<'static, i64>),
}

impl Sbj {
  fn next(&self, v: i64) {
    match self {
      Sbj::Plain(s) => s.next(v),
      Sbj::Replay(s) => s.next(v),
      Sbj::Behavior(s) => s.next(v),
    }
  }
  fn observable(&self) -> Observable<'static, i64> {
    match self {
      Sbj::Plain(s) => s.observable(),
      Sbj::Replay(s) => s.observable(),
      Sbj::Behavior(s) => s.observable(),
    }
  }
  fn count(&self) -> usize {
    match self {
      Sbj::Plain(s) => s.verif_observer_count(),
      Sbj::Replay(s) => s.verif_observer_count(),
      Sbj::Behavior(s) => s.verif_observer_count(),
    }
  }
}

pub fn build(a: &[Sexp]) -> Option<Box<dyn Scenario>> {
  let kind = match a.first()?.atom()? {
    "plain" => Kind::Plain,
    "replay" => Kind::Replay,
    "behavior" => Kind::Behavior,
    _ => return None,
  };
  let mut pre = 0;
  let mut init = 0;
  let mut threads = Vec::new();
  let mut nobs = 0;
  for x in &a[1..] {
    let (h, rest) = x.call()?;
    match h {
      "pre" => pre = rest.first()?.nat()?,
      "init" => init = rest.first()?.int()?,
      "thread" => {
        let mut v = Vec::new();
        for c in rest {
          let (k, y) = c.call()?;
          v.push(match k {
            "next" => Op::Next(y.first()?.int()?),
            "subscribe" => Op::Subscribe(y.first()?.nat()?),
            "unsubscribe" => Op::Unsubscribe(y.first()?.nat()?),
            _ => return None,
          });
          if let Op::Subscribe(o) | Op::Unsubscribe(o) = v.last().unwrap() {
            nobs = nobs.max(*o + 1);
          }
        }
        threads.push(v);
      }
      _ => return None,
    }
  }
  if kind != Kind::Plain && pre != 0 {
    return None;
  }
  nobs = nobs.max(pre);
  Some(Box::new(SubjLts { kind, pre, init, nobs, threads }))
}

fn h(text: String) {
  facade::log("h", 0, "", text);
}

/// what a lock is, as far as the LTSs care
#[derive(Clone, Copy, Debug, PartialEq)]
enum Role {
  Map,
  Serial,
  OnSub,
  OnUnsub,
  Items,
  WasErr,
  WasCompl,
  LastItem,
  LastErr,
  Source,
  ONext(usize),
  OErr(usize),
  OCompl(usize),
  OTd(usize),
  FNext,
  FErr,
  FCompl,
  FTd,
  Cell,
  SubUnsub,
  /// the FunctionWrapper stored in a `fn_on_unsubscribe` cell (read by `f.call(())` right after the cell was read)
  TdFn,
}

#[derive(Clone, Debug, PartialEq)]
enum Ctx {
  Idle,
  Next,
  Sub(usize),
  Unsub(usize),
}

#[derive(Clone, Debug)]
struct Th {
  ctx: Ctx,
  last: &'static str,
  calls: usize,
  /// forwarder slots discovered so far in the current subscribe call
  fnew: usize,
}

fn file_of(site: &str) -> &str {
  site.split(':').next().unwrap_or("")
}

impl Scenario for SubjLts {
  fn body(&self) -> Arc<dyn Fn() + Send + Sync> {
    let (kind, pre, init, nobs) = (self.kind, self.pre, self.init, self.nobs);
    let threads = self.threads.clone();
    Arc::new(move || {
      // creation order fixes the lock ids: subject first, then the Observable handed to every subscriber, then
      // the observers 0..nobs-1 (four locks each); the probes make the ids visible in the event log
      let sbj = match kind {
        Kind::Plain => Sbj::Plain(subjects::Subject::new()),
        Kind::Replay => Sbj::Replay(subjects::ReplaySubject::new()),
        Kind::Behavior => Sbj::Behavior(subjects::BehaviorSubject::new(init)),
      };
      h("probe subject".into());
      let _ = sbj.count();
      let source = sbj.observable();
      let mut obs: Vec<Observer<'static, i64>> = Vec::new();
      for o in 0..nobs {
        let ob = Observer::new(move |v: i64| h(format!("cb {} {}", o, v)), |_e| h("cbErr".into()), || h("cbCompl".into()));
        h(format!("probe obs {}", o));
        let _ = ob.is_subscribed();
        obs.push(ob);
      }
      for ob in obs.iter().take(pre) {
        let _ = source.verif_inner_subscribe(ob.clone());
      }
      h("start".into());
      let mut hs = Vec::new();
      for ops in threads.iter() {
        let ops = ops.clone();
        let sbj = sbj.clone();
        let source = source.clone();
        let obs = obs.clone();
        hs.push(shuttle::thread::spawn(move || {
          for op in ops {
            match op {
              Op::Next(v) => {
                h(format!("call next {}", v));
                sbj.next(v);
                h("ret".into());
              }
              Op::Subscribe(o) => {
                h(format!("call subscribe {}", o));
                let _ = source.verif_inner_subscribe(obs[o].clone());
                h("ret".into());
              }
              Op::Unsubscribe(o) => {
                h(format!("call unsubscribe {}", o));
                obs[o].unsubscribe();
                h("ret".into());
              }
            }
          }
        }));
      }
      for t in hs {
        let _ = t.join();
      }
      h("end".into());
      let n = sbj.count();
      h(format!("count {}", n));
      for (o, ob) in obs.iter().enumerate() {
        let b = ob.is_subscribed();
        h(format!("live {} {}", o, if b { 1 } else { 0 }));
      }
    })
  }

  fn render(&self, out: &Outcome) -> String {
    let evs = &out.events;
    // ---- lock identities from the main thread's probes -------------------------------------------
    let mut role: HashMap<usize, Role> = HashMap::new();
    let mut bad_setup: Vec<String> = Vec::new();
    let mut start = evs.len();
    let mut end = evs.len();
    {
      let mut i = 0;
      while i < evs.len() {
        let e = &evs[i];
        if e.tid == 0 && e.kind == "h" {
          if e.payload == "start" {
            start = i;
          } else if e.payload == "end" {
            end = i;
          } else if start == evs.len() && e.payload == "probe subject" {
            if let Some(x) = evs[i + 1..].iter().find(|x| x.tid == 0 && x.kind == "acq_r") {
              let m = x.obj;
              if file_of(&x.site) != "subject" {
                bad_setup.push(format!("map@{}", x.site));
              }
              role.insert(m, Role::Map);
              role.insert(m + 1, Role::Serial);
              role.insert(m + 2, Role::OnSub);
              role.insert(m + 3, Role::OnUnsub);
              match self.kind {
                Kind::Plain => {}
                Kind::Replay => {
                  role.insert(m + 4, Role::Items);
                  role.insert(m + 5, Role::WasErr);
                  role.insert(m + 6, Role::WasCompl);
                }
                Kind::Behavior => {
                  role.insert(m + 4, Role::LastItem);
                  role.insert(m + 5, Role::LastErr);
                }
              }
            }
          } else if start == evs.len() && e.payload.starts_with("probe obs ") {
            let o: usize = e.payload[10..].parse().unwrap_or(0);
            let ids: Vec<usize> = evs[i + 1..].iter().filter(|x| x.tid == 0 && x.kind == "acq_r").take(3).map(|x| x.obj).collect();
            if ids.len() == 3 {
              role.insert(ids[0], Role::ONext(o));
              role.insert(ids[1], Role::OErr(o));
              role.insert(ids[2], Role::OCompl(o));
              role.insert(ids[2] + 1, Role::OTd(o));
              if o == 0 {
                role.insert(ids[0] - 1, Role::Source);
              }
            }
          }
        }
        i += 1;
      }
    }
    // expected file of the creation site of each role (checked whenever the role is used)
    let site_ok = |r: Role, site: &str| -> bool {
      let f = file_of(site);
      match r {
        Role::Map | Role::Serial | Role::OnSub | Role::OnUnsub => f == "subject",
        Role::Items | Role::WasErr | Role::WasCompl | Role::Cell if self.kind == Kind::Replay => f == "replay_subject",
        Role::LastItem | Role::LastErr | Role::Cell => f == "behavior_subject",
        Role::OTd(_) | Role::FTd => f == "observer",
        _ => f == "function_wrapper",
      }
    };
    // ---- per-thread event index lists (for look-ahead) --------------------------------------------
    let nthreads = self.threads.len();
    let mut per: Vec<Vec<usize>> = vec![Vec::new(); nthreads];
    for (i, e) in evs.iter().enumerate() {
      if i > start && i < end && e.tid >= 2 && e.tid - 2 < nthreads {
        per[e.tid - 2].push(i);
      }
    }
    // diagnostic only (seeded mutations): SUBJLTS_LENIENT=1 drops acquisitions of locks made in subject.rs that the
    // LTS has no step for, instead of rendering them as `?…` (which is an immediate REJECT)
    let lenient = std::env::var("SUBJLTS_LENIENT").map(|v| v == "1").unwrap_or(false);
    let is_acq = |k: &str| k == "acq_r" || k == "acq_w" || k == "lock";
    // item -> (producer thread, call index): items are unique per scenario (the generator sees to it)
    let mut tag: HashMap<i64, (usize, usize)> = HashMap::new();
    let mut dup_items = false;
    for (t, ops) in self.threads.iter().enumerate() {
      let mut k = 0;
      for op in ops {
        if let Op::Next(v) = op {
          if tag.insert(*v, (t, k)).is_some() {
            dup_items = true;
          }
          k += 1;
        }
      }
    }
    // ---- labels --------------------------------------------------------------------------------------
    let mut labels: Vec<(usize, String)> = Vec::new(); // (2*event index [-1 = just before], text)
    let mut recv: Vec<Vec<String>> = vec![Vec::new(); self.nobs];
    let mut consumed: HashSet<usize> = HashSet::new();
    let mut th: Vec<Th> = vec![Th { ctx: Ctx::Idle, last: "", calls: 0, fnew: 0 }; nthreads];
    let mut cursor: Vec<usize> = vec![0; nthreads]; // position in per[t] of the event being looked at
    macro_rules! emit {
      ($key:expr, $t:expr, $s:expr) => {{
        labels.push(($key, format!("{} {}", $t, $s)));
        th[$t].last = $s;
      }};
    }
    for i in (start + 1).min(evs.len())..end.min(evs.len()) {
      let e = &evs[i];
      if e.tid < 2 || e.tid - 2 >= nthreads {
        continue;
      }
      let t = e.tid - 2;
      let p = cursor[t];
      cursor[t] += 1;
      debug_assert!(per[t][p] == i);
      if consumed.contains(&i) || e.kind == "rel" {
        continue;
      }
      if e.kind == "h" {
        let w: Vec<&str> = e.payload.split(' ').collect();
        match w[0] {
          "call" => {
            th[t].ctx = match w[1] {
              "next" => {
                th[t].calls += 1;
                Ctx::Next
              }
              "subscribe" => Ctx::Sub(w[2].parse().unwrap_or(0)),
              _ => Ctx::Unsub(w[2].parse().unwrap_or(0)),
            };
            th[t].fnew = 0;
            emit!(2 * i, t, "call");
          }
          "ret" => {
            if th[t].ctx == Ctx::Next {
              emit!(2 * i, t, "ret");
            }
            th[t].ctx = Ctx::Idle;
          }
          "cb" => {
            let o: usize = w[1].parse().unwrap_or(0);
            let v: i64 = w[2].parse().unwrap_or(0);
            match th[t].ctx {
              Ctx::Next => {
                emit!(2 * i, t, "deliver");
                if o < recv.len() {
                  recv[o].push(format!("{}.{}.{}", t, th[t].calls - 1, v));
                }
              }
              Ctx::Sub(_) => {
                emit!(2 * i, t, "hdeliver");
                if o < recv.len() {
                  match (self.kind, tag.get(&v)) {
                    (Kind::Replay, Some((pt, pk))) => recv[o].push(format!("{}.{}.{}", pt, pk, v)),
                    _ => recv[o].push(format!("h.0.{}", v)),
                  }
                }
              }
              _ => labels.push((2 * i, format!("{} ?callback-outside-a-call", t))),
            }
          }
          _ => labels.push((2 * i, format!("{} ?mark:{}", t, e.payload.replace(' ', "_")))),
        }
        continue;
      }
      if !is_acq(e.kind) {
        labels.push((2 * i, format!("{} ?{}:{}", t, e.kind, e.site)));
        continue;
      }
      let wr = e.kind == "acq_w";
      let last = th[t].last;
      let ctx = th[t].ctx.clone();
      // dynamic discovery of the locks made inside a subscribe call (Replay / Behavior)
      if !role.contains_key(&e.obj) && !wr && file_of(&e.site) == "function_wrapper" && (last == "readTd" || last == "fReadTd") {
        role.insert(e.obj, Role::TdFn);
      }
      if !role.contains_key(&e.obj) && self.kind != Kind::Plain {
        let f = file_of(&e.site);
        let r = if f == "replay_subject" || f == "behavior_subject" {
          Some(Role::Cell)
        } else if f == "observer" {
          Some(Role::FTd)
        } else if f == "function_wrapper" {
          match ctx {
            Ctx::Sub(_) if !wr && (last == "hist" || last == "setTd") => {
              th[t].fnew += 1;
              match th[t].fnew {
                1 => Some(Role::FNext),
                2 => Some(Role::FErr),
                3 => Some(Role::FCompl),
                _ => Some(Role::Source),
              }
            }
            Ctx::Sub(_) | Ctx::Unsub(_) if wr => Some(Role::SubUnsub),
            _ => None,
          }
        } else {
          None
        };
        if let Some(r) = r {
          role.insert(e.obj, r);
        }
      }
      let r = match role.get(&e.obj) {
        Some(r) if site_ok(*r, &e.site) => *r,
        _ => {
          if !(lenient && file_of(&e.site) == "subject") {
            labels.push((2 * i, format!("{} ?{}:{}", t, e.kind, e.site)));
          }
          continue;
        }
      };
      let lab: Option<&'static str> = match (self.kind, &ctx, r, wr) {
        // ---- next -------------------------------------------------------------------------------------
        (Kind::Replay, Ctx::Next, Role::Items, true) => Some("push"),
        (Kind::Behavior, Ctx::Next, Role::LastItem, true) => Some("setLast"),
        (_, Ctx::Next, Role::Map, false) => Some("snap"),
        (Kind::Plain, Ctx::Next, Role::ONext(_), false) => Some("fetch"),
        (Kind::Replay | Kind::Behavior, Ctx::Next, Role::FNext, false) => Some("fetch"),
        (Kind::Replay | Kind::Behavior, Ctx::Next, Role::ONext(_), false) => Some("ofetch"),
        // ---- subscribe ----------------------------------------------------------------------------------
        (_, Ctx::Sub(_), Role::Source, false) => None,
        (_, Ctx::Sub(_), Role::OnSub, false) => None,
        (_, Ctx::Sub(_), Role::FNext | Role::FErr | Role::FCompl, false) if last == "hist" || last == "setTd" => None,
        (_, Ctx::Sub(o), Role::ONext(o2), false) if *o == o2 => {
          // hand-over / replay fetch, or an `is_subscribed()`
          let fetch = match self.kind {
            Kind::Plain => false,
            Kind::Replay => last == "rdCompl" || last == "hfetch" || last == "hdeliver",
            Kind::Behavior => last == "rdErr",
          };
          if fetch {
            Some("hfetch")
          } else {
            // the `is_subscribed()` group: up to three reads, then: does the thread acquire anything else before `ret`?
            let list = &per[t];
            let mut idx = vec![i];
            let mut q = p + 1;
            let want = [Role::OErr(*o), Role::OCompl(*o)];
            let mut more = false;
            while q < list.len() {
              let x = &evs[list[q]];
              if x.kind == "rel" {
                q += 1;
                continue;
              }
              if idx.len() < 3 && x.kind == "acq_r" && role.get(&x.obj) == Some(&want[idx.len() - 1]) {
                idx.push(list[q]);
                consumed.insert(list[q]);
                q += 1;
                continue;
              }
              break;
            }
            while q < list.len() {
              let x = &evs[list[q]];
              if x.kind == "h" && x.payload == "ret" {
                break;
              }
              if is_acq(x.kind) {
                more = true;
                break;
              }
              q += 1;
            }
            let (name, result): (&'static str, bool) = match (self.kind, last) {
              (_, "call") => ("isSub1", idx.len() == 3 && more),
              (Kind::Plain, "isSub1") => ("isSub2", idx.len() == 3 && more),
              (Kind::Behavior, "hfetch") | (Kind::Behavior, "hdeliver") => ("isSub2", idx.len() == 3 && more),
              (Kind::Replay, "setSbsc") => ("isSubEnd", idx.len() == 3 && !more),
              _ => ("?is_subscribed", false),
            };
            let at = if result { idx[0] } else { *idx.last().unwrap() };
            emit!(2 * at, t, name);
            None
          }
        }
        (Kind::Plain, Ctx::Sub(_), Role::Serial, true) => Some("serial"),
        (Kind::Plain, Ctx::Sub(o), Role::OTd(o2), true) if *o == o2 => Some("setTd"),
        (Kind::Plain, Ctx::Sub(_), Role::Map, true) => Some("insert"),
        (Kind::Replay | Kind::Behavior, Ctx::Sub(o), Role::OTd(o2), true) if *o == o2 => Some("setTd"),
        (Kind::Replay, Ctx::Sub(_), Role::Items, false) => Some("hist"),
        (Kind::Replay | Kind::Behavior, Ctx::Sub(_), Role::Serial, true) => Some("serial"),
        (Kind::Replay | Kind::Behavior, Ctx::Sub(_), Role::FTd, true) if last == "serial" => Some("setTdF"),
        (Kind::Replay | Kind::Behavior, Ctx::Sub(_), Role::Map, true) if last == "setTdF" => Some("insert"),
        (Kind::Replay, Ctx::Sub(_), Role::WasErr, false) => Some("rdErr"),
        (Kind::Replay, Ctx::Sub(_), Role::WasCompl, false) => Some("rdCompl"),
        (Kind::Replay, Ctx::Sub(_), Role::Cell, true) => {
          emit!(2 * i - 1, t, "hdone");
          Some("setSbsc")
        }
        (Kind::Behavior, Ctx::Sub(_), Role::LastItem, false) => Some("rdLast"),
        (Kind::Behavior, Ctx::Sub(_), Role::LastErr, false) => Some("rdErr"),
        (Kind::Behavior, Ctx::Sub(_), Role::Cell, true) => Some("setSbsc"),
        // Replay: the subscriber ended during the replay: `live.unsubscribe()` by the subscribing thread
        (Kind::Replay, Ctx::Sub(_), Role::SubUnsub, true) => Some("takeUnsub"),
        (Kind::Replay, Ctx::Sub(_), Role::OnUnsub, false) => None,
        // ---- unsubscribe ----------------------------------------------------------------------------------
        (_, Ctx::Unsub(_) | Ctx::Sub(_), Role::TdFn, false) if last == "readTd" || last == "fReadTd" => None,
        (_, Ctx::Unsub(o), Role::ONext(o2), true) if *o == o2 => Some("clrNext"),
        (_, Ctx::Unsub(o), Role::OErr(o2), true) if *o == o2 => Some("clrErr"),
        (_, Ctx::Unsub(o), Role::OCompl(o2), true) if *o == o2 => Some("clrCompl"),
        (_, Ctx::Unsub(o), Role::OTd(o2), false) if *o == o2 => Some("readTd"),
        (_, Ctx::Unsub(o), Role::OTd(o2), true) if *o == o2 => Some("clrTd"),
        (Kind::Plain, Ctx::Unsub(_), Role::Map, true) => Some("remove"),
        (_, Ctx::Unsub(_), Role::OnUnsub, false) => None,
        (Kind::Replay | Kind::Behavior, Ctx::Unsub(_), Role::Cell, false) => Some("readSbsc"),
        (Kind::Replay | Kind::Behavior, Ctx::Unsub(_), Role::SubUnsub, true) => Some("takeUnsub"),
        // the forwarder's `unsubscribe` (from the outer teardown, or from Replay's subscribing thread)
        (Kind::Replay | Kind::Behavior, Ctx::Unsub(_) | Ctx::Sub(_), Role::FNext, true) => Some("fClrNext"),
        (Kind::Replay | Kind::Behavior, Ctx::Unsub(_) | Ctx::Sub(_), Role::FErr, true) => Some("fClrErr"),
        (Kind::Replay | Kind::Behavior, Ctx::Unsub(_) | Ctx::Sub(_), Role::FCompl, true) => Some("fClrCompl"),
        (Kind::Replay | Kind::Behavior, Ctx::Unsub(_) | Ctx::Sub(_), Role::FTd, false) => Some("fReadTd"),
        (Kind::Replay | Kind::Behavior, Ctx::Unsub(_) | Ctx::Sub(_), Role::Map, true) => Some("fRemove"),
        (Kind::Replay | Kind::Behavior, Ctx::Unsub(_) | Ctx::Sub(_), Role::FTd, true) => Some("fClrTd"),
        _ => {
          if !(lenient && file_of(&e.site) == "subject") {
            labels.push((2 * i, format!("{} ?{}:{}:{:?}", t, e.kind, e.site, r)));
          }
          None
        }
      };
      if let Some(s) = lab {
        emit!(2 * i, t, s);
      }
    }
    labels.sort_by_key(|x| x.0);
    // ---- what the harness observed at the end ------------------------------------------------------------
    let mut count = "?".to_string();
    let mut live = vec!['?'; self.nobs];
    for e in evs.iter().skip(end.min(evs.len())) {
      if e.tid == 0 && e.kind == "h" {
        if let Some(n) = e.payload.strip_prefix("count ") {
          count = n.to_string();
        } else if let Some(x) = e.payload.strip_prefix("live ") {
          let w: Vec<&str> = x.split(' ').collect();
          if let (Some(o), Some(b)) = (w.first().and_then(|s| s.parse::<usize>().ok()), w.get(1)) {
            if o < live.len() {
              live[o] = if *b == "1" { '1' } else { '0' };
            }
          }
        }
      }
    }
    let progs = self
      .threads
      .iter()
      .map(|ops| {
        ops
          .iter()
          .map(|op| match op {
            Op::Next(v) => format!("next {}", v),
            Op::Subscribe(o) => format!("subscribe {}", o),
            Op::Unsubscribe(o) => format!("unsubscribe {}", o),
          })
          .collect::<Vec<_>>()
          .join(",")
      })
      .collect::<Vec<_>>()
      .join("/");
    let kind = match self.kind {
      Kind::Plain => "plain",
      Kind::Replay => "replay",
      Kind::Behavior => "behavior",
    };
    let setup = if bad_setup.is_empty() && !dup_items { String::new() } else { format!(" setup=BAD:{}{}", bad_setup.join(","), if dup_items { ",duplicate-items" } else { "" }) };
    format!(
      "kind={} pre={} nobs={} init={}{} ; {} ; recv={} count={} live={} ; {}",
      kind,
      self.pre,
      self.nobs,
      self.init,
      setup,
      progs,
      recv.iter().enumerate().map(|(o, l)| format!("{}:{}", o, l.join(","))).collect::<Vec<_>>().join("|"),
      count,
      live.iter().collect::<String>(),
      labels.iter().map(|x| x.1.clone()).collect::<Vec<_>>().join(";")
    )
  }
}
