//! Scenario `pipe`: the shared case language (harness/seq/src/core.rs) executed on the shuttle-instrumented
//! copy, with sources / schedulers / timers on their own threads and virtual time.
//!   (pipe STEP...)  — the steps of the sequential case language plus
//!     (settle MS)            the main thread sleeps MS virtual milliseconds
//!     (unsub-after S MS)     a thread that sleeps MS, then unsubscribes user S (stamped u<S>! / u<S>.)
//!     (drive NAME (GAP ACT)...)  a thread that drives hot subject NAME: ACT = (n v) | (e k) | c, stamped h<NAME>!.. / h<NAME>...
//! Every record is rendered as `<tid>:<record>@<virtual-time>`; the final observation (S= L= O=) follows.
use crate::core::*;
use crate::sexp::Sexp;
use crate::value::{live, reset_live, ITEM, OP, USER};
use crate::{Outcome, Scenario};
use another_rxrust::verif_facade as facade;
use another_rxrust::verif_std::thread as vthread;
use std::sync::{Arc, Mutex};
use std::time::Duration;

pub struct Pipe {
  steps: Vec<Sexp>,
  last: Arc<Mutex<String>>,
}

pub fn build(a: &[Sexp]) -> Option<Box<dyn Scenario>> {
  Some(Box::new(Pipe { steps: a.to_vec(), last: Arc::new(Mutex::new(String::new())) }))
}

fn conc_step(sh: &Shared, e: &Sexp) -> Option<()> {
  let (h, a) = e.call()?;
  match h {
    "settle" => {
      vthread::sleep(Duration::from_millis(a.first()?.nat()? as u64));
      Some(())
    }
    "unsub-after" => {
      let s = a.first()?.nat()?;
      let ms = a.get(1)?.nat()? as u64;
      let sh = sh.clone();
      vthread::spawn(move || {
        sh.rec("HT".to_string());
        if ms > 0 {
          vthread::sleep(Duration::from_millis(ms));
        }
        sh.rec(format!("u{}!", s));
        user_unsub(&sh, s);
        sh.rec(format!("u{}.", s));
      });
      Some(())
    }
    "sub-after" => {
      // a thread that subscribes (a late subscriber racing the producers)
      let ms = a.first()?.nat()? as u64;
      let o = pipe(sh, a.get(1)?)?;
      let sh = sh.clone();
      vthread::spawn(move || {
        sh.rec("HT".to_string());
        if ms > 0 {
          vthread::sleep(Duration::from_millis(ms));
        }
        sh.rec("S!".to_string());
        user_subscribe(&sh, &o, Vec::new());
        sh.rec("S.".to_string());
      });
      Some(())
    }
    "drive" => {
      let name = a.first()?.atom()?.to_string();
      let mut acts = Vec::new();
      for it in a[1..].iter() {
        let l = it.list()?;
        let gap = l.first()?.nat()? as u64;
        let ev = l.get(1)?;
        let (text, sx) = if ev.atom() == Some("c") {
          ("c".to_string(), Sexp::List(vec![Sexp::Atom("hcomplete".into()), Sexp::Atom(name.clone())]))
        } else {
          let (k, x) = ev.call()?;
          match k {
            "n" => (format!("n{}", x.first()?.atom()?), Sexp::List(vec![Sexp::Atom("hnext".into()), Sexp::Atom(name.clone()), x.first()?.clone()])),
            "e" => (format!("e{}", x.first()?.atom()?), Sexp::List(vec![Sexp::Atom("herror".into()), Sexp::Atom(name.clone()), x.first()?.clone()])),
            _ => return None,
          }
        };
        acts.push((gap, text, subject_action(sh, &sx)?));
      }
      let sh = sh.clone();
      vthread::spawn(move || {
        sh.rec("HT".to_string());
        for (gap, text, act) in acts {
          if gap > 0 {
            vthread::sleep(Duration::from_millis(gap));
          }
          sh.rec(format!("h{}!{}", name, text));
          act(0);
          sh.rec(format!("h{}.{}", name, text));
        }
      });
      Some(())
    }
    _ => step(sh, e),
  }
}

impl Scenario for Pipe {
  fn timed(&self) -> bool {
    true
  }
  fn body(&self) -> Arc<dyn Fn() + Send + Sync> {
    let steps = self.steps.clone();
    let last = self.last.clone();
    Arc::new(move || {
      reset_live();
      let sh = Shared::new();
      set_current(Some(sh.clone()));
      sh.lock().hook = Some(Arc::new(|s: &str| {
        facade::log("h", 0, "", format!("{}@{}", s, facade::now()));
      }));
      let mut ok = true;
      for st in steps.iter() {
        if conc_step(&sh, st).is_none() {
          facade::log("h", 0, "", format!("PARSE-ERROR {}", st));
          ok = false;
          break;
        }
      }
      if ok {
        // quiescence: let every timer and worker run out (virtual time), then look at the end state
        vthread::sleep(Duration::from_millis(3_000));
        // end whatever is still subscribed (a source that never terminates), then let the workers wind down
        facade::log("h", 0, "", format!("ENDALL@{}", facade::now()));
        let n = sh.lock().users.len();
        for s in 0..n {
          // only subscriptions that are still live: one that already ended must have cleaned up by itself
          // (the harness lock is a real mutex: it must not be held across an instrumented call)
          let sub = sh.lock().users.get(s).and_then(|u| u.sub.clone());
          let live = sub.map(|x| x.is_subscribed()).unwrap_or(false);
          if live {
            user_unsub(&sh, s);
          }
        }
        vthread::sleep(Duration::from_millis(500));
        facade::set_logging(false);
        let fin = observe(&sh, usize::MAX, "ok", false);
        facade::set_logging(true);
        facade::log("h", 0, "", format!("FINAL {}", fin.trim()));
      }
      *last.lock().unwrap_or_else(|e| e.into_inner()) = String::new();
      // drop the handles while logging is off (destructors take locks)
      facade::set_logging(false);
      // let go of every handle the harness holds (named observables, subjects, connectables, subscriptions): the
      // instrumented sources record into `sh`, so a named observable inside `sh` would keep `sh` alive (a cycle of the
      // harness's own making) if the environment were not emptied explicitly
      let _ = step(&sh, &Sexp::List(vec![Sexp::Atom("drop".into())]));
      set_current(None);
      drop(sh);
      facade::set_logging(true);
      // C17: every subscription has ended and every handle of the harness is gone: what is still alive is owned by
      // the library (token classes: user callbacks, operator closures, items)
      facade::log("h", 0, "", format!("TOK:u={},o={},i={}@{}", live(USER), live(OP), live(ITEM), facade::now()));
    })
  }

  fn render(&self, out: &Outcome) -> String {
    let mut recs: Vec<String> = Vec::new();
    let mut exits = 0usize;
    let mut spawns = 0usize;
    let mut harness: Vec<usize> = Vec::new();
    let mut lib_exits: Vec<String> = Vec::new();
    for e in out.events.iter() {
      if e.kind == "h" && e.payload.starts_with("HT@") {
        harness.push(e.tid);
      }
    }
    for e in out.events.iter() {
      match e.kind {
        "h" => {
          if !e.payload.starts_with("HT@") {
            recs.push(format!("{}:{}", e.tid, e.payload))
          }
        }
        "spawn" => spawns += 1,
        "exit" => {
          exits += 1;
          if !harness.contains(&e.tid) {
            lib_exits.push(e.payload.clone()); // virtual time at which a thread of the library exited
          }
        }
        _ => {}
      }
    }
    format!("threads={}/{} exits={} ; {}", exits, spawns, lib_exits.join(","), recs.join(" "))
  }
}
