//! Scenario `tovec`: a source thread plays a script into `to_vec()`, the main thread polls the future
//! with a minimal park/unpark `block_on`.  Rendered as the label trace of the Lean LTS `Rx.ToVec`
//! (lean/RxVerif/Conc/ToVec.lean) for co-simulation, plus the value the future returned.
//!   (tovec 1 2 c)   (tovec 7 e3)   (tovec 1)
use crate::sexp::Sexp;
use crate::{Outcome, Scenario};
use another_rxrust::prelude::*;
use another_rxrust::verif_facade as facade;
use std::future::Future;
use std::sync::atomic::{AtomicBool, Ordering};
use std::sync::Arc;
use std::task::{Context, Poll, Wake, Waker};

#[derive(Clone)]
enum Ev {
  N(i64),
  E(i64),
  C,
}

pub struct ToVecSc {
  script: Vec<Ev>,
  text: String,
  lines: Vec<usize>, // creation lines of buffer, done, err, waker in the instrumented to_vec.rs
}

fn lock_lines() -> Vec<usize> {
  let p = concat!(env!("CARGO_MANIFEST_DIR"), "/../../build/rx-conc/src/operators/to_vec.rs");
  let mut v = Vec::new();
  if let Ok(t) = std::fs::read_to_string(p) {
    for (i, l) in t.lines().enumerate() {
      if l.contains("RwLock::new(") {
        v.push(i + 1);
      }
    }
  }
  v
}

pub fn build(a: &[Sexp]) -> Option<Box<dyn Scenario>> {
  let mut script = Vec::new();
  let mut text = Vec::new();
  for x in a {
    let s = x.atom()?;
    text.push(s.to_string());
    if s == "c" {
      script.push(Ev::C);
    } else if let Some(r) = s.strip_prefix('e') {
      script.push(Ev::E(r.parse().ok()?));
    } else {
      script.push(Ev::N(s.parse().ok()?));
    }
  }
  let lines = lock_lines();
  if lines.len() != 4 {
    return None;
  }
  Some(Box::new(ToVecSc { script, text: text.join(" "), lines }))
}

struct ThreadWaker {
  thread: shuttle::thread::Thread,
  token: Arc<AtomicBool>,
  /// a waker belongs to one task: waking the waker of a task the future has left does not run the task that polls
  /// it now (`stale` is set when the executor moves on to another waker)
  stale: Arc<AtomicBool>,
}
impl Wake for ThreadWaker {
  fn wake(self: Arc<Self>) {
    facade::log("h", 0, "", "wake".into());
    self.token.store(true, Ordering::SeqCst);
    if !self.stale.load(Ordering::SeqCst) {
      self.thread.unpark();
    }
  }
}

#[derive(Debug)]
struct EP(i64);

impl Scenario for ToVecSc {
  fn body(&self) -> Arc<dyn Fn() + Send + Sync> {
    let script = self.script.clone();
    Arc::new(move || {
      let script = script.clone();
      let silent = !script.iter().any(|e| !matches!(e, Ev::N(_)));
      let src_done = Arc::new(AtomicBool::new(false));
      let src_done2 = src_done.clone();
      let src = Observable::<'static, i64>::create(move |s: Observer<'static, i64>| {
        let script = script.clone();
        let src_done = src_done2.clone();
        shuttle::thread::spawn(move || {
          facade::log("h", 0, "", "src-start".into());
          for ev in script {
            match ev {
              Ev::N(v) => s.next(v),
              Ev::E(e) => s.error(RxError::from_error(EP(e))),
              Ev::C => s.complete(),
            }
          }
          src_done.store(true, Ordering::SeqCst);
        });
      });
      let tv = src.to_vec();
      // a clone shares the future's state: it is observed once more after the first one became ready
      let mut fut_again = Box::pin(tv.clone());
      let mut fut = Box::pin(tv);
      let mut token = Arc::new(AtomicBool::new(false));
      let mut stale = Arc::new(AtomicBool::new(false));
      let mut waker = Waker::from(Arc::new(ThreadWaker { thread: shuttle::thread::current(), token: token.clone(), stale: stale.clone() }));
      let mut switched = false;
      let mut polls = 0;
      loop {
        polls += 1;
        let mut cx = Context::from_waker(&waker);
        match fut.as_mut().poll(&mut cx) {
          Poll::Ready(r) => {
            let res = match r {
              Ok(buf) => format!("Ok[{}]", buf.read().unwrap().iter().map(|x| x.to_string()).collect::<Vec<_>>().join(",")),
              Err(e) => format!("Err({})", e.downcast_ref::<EP>().map(|p| p.0).unwrap_or(-1)),
            };
            // the same outcome must be observable again through the clone (not part of the co-simulated trace)
            facade::log("h", 0, "", "again-start".into());
            let again = match fut_again.as_mut().poll(&mut cx) {
              Poll::Ready(Ok(buf)) => format!("Ok[{}]", buf.read().unwrap().iter().map(|x| x.to_string()).collect::<Vec<_>>().join(",")),
              Poll::Ready(Err(e)) => format!("Err({})", e.downcast_ref::<EP>().map(|p| p.0).unwrap_or(-1)),
              Poll::Pending => "Pending".to_string(),
            };
            facade::log("h", 0, "", "again-end".into());
            facade::log("h", 0, "", format!("result {} polls={} again={}", res, polls, again));
            break;
          }
          Poll::Pending => {
            if silent {
              // a source that never terminates never wakes the executor: poll again (the model's
              // spurious return from park) until the source thread is done, then stop
              if src_done.load(Ordering::SeqCst) || polls > 50 {
                facade::log("h", 0, "", "result GAVE-UP".into());
                break;
              }
              shuttle::thread::yield_now();
              facade::log("h", 0, "", "spurious".into());
              continue;
            }
            if polls > 50 {
              facade::log("h", 0, "", "result GAVE-UP".into());
              break;
            }
            if !switched {
              // the future moves to another task: the next poll (the model's spurious return from park) brings a
              // DIFFERENT waker, and from now on only that one is listened to - a poll must replace the stored waker
              switched = true;
              stale.store(true, Ordering::SeqCst);
              let woken_meanwhile = token.load(Ordering::SeqCst);
              token = Arc::new(AtomicBool::new(woken_meanwhile));
              stale = Arc::new(AtomicBool::new(false));
              waker = Waker::from(Arc::new(ThreadWaker { thread: shuttle::thread::current(), token: token.clone(), stale: stale.clone() }));
              facade::log("h", 0, "", "spurious".into());
              continue;
            }
            shuttle::thread::park();
            if token.swap(false, Ordering::SeqCst) {
              facade::log("h", 0, "", "park".into());
            } else {
              facade::log("h", 0, "", "spurious".into());
            }
          }
        }
      }
    })
  }

  fn render(&self, out: &Outcome) -> String {
    let mut labels: Vec<String> = Vec::new();
    let mut result = String::from("none");
    let name = |site: &str| -> Option<&'static str> {
      let ln: usize = site.strip_prefix("to_vec:")?.parse().ok()?;
      let names = ["buffer", "done", "err", "waker"];
      self.lines.iter().position(|l| *l == ln).map(|i| names[i])
    };
    let mut src_tid: Option<usize> = None;
    for e in out.events.iter() {
      if e.kind == "h" && e.payload == "src-start" {
        src_tid = Some(e.tid);
      }
    }
    let mut again = false; // the executor's second look through the clone is not part of the co-simulated trace
    for e in out.events.iter() {
      if e.tid == 0 && e.kind == "h" && e.payload == "again-start" {
        again = true;
      }
      if e.tid == 0 && e.kind == "h" && e.payload == "again-end" {
        again = false;
        continue;
      }
      if again && e.tid == 0 {
        continue;
      }
      let who = if e.tid == 0 {
        "exe"
      } else if Some(e.tid) == src_tid {
        "src"
      } else {
        continue;
      };
      match e.kind {
        "h" => {
          if e.payload.starts_with("result") {
            result = e.payload.clone();
          } else if e.payload == "wake" {
            labels.push("src wake".to_string()); // wake() runs on the thread of the terminal callback
          } else if e.payload == "park" || e.payload == "spurious" {
            labels.push(format!("exe {}", e.payload));
          }
        }
        // (the executor touches `buffer` only when the harness reads the returned value)
        "acq_r" | "acq_w" => {
          if let Some(n) = name(&e.site) {
            if !(who == "exe" && n == "buffer") {
              labels.push(format!("{} acq_{}", who, n));
            }
          }
        }
        "rel" => {
          if let Some(n) = name(&e.site) {
            if !(who == "exe" && n == "buffer") {
              labels.push(format!("{} rel_{}", who, n));
            }
          }
        }
        _ => {}
      }
    }
    format!("script={} ; {} ; {}", self.text, result, labels.join(";"))
  }
}
