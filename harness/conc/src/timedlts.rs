//! Scenario `timedlts`: the timer-driven parts of the crate run the way the `Params` of the virtual-time LTSs in
//! lean/RxVerif/Conc/Timed.lean describe, and the facade's event log rendered as the LTS's labels
//! (`tick <t>` / `run <tid>`), for `rxmodel cosim timed`.
//!   (timedlts timeout  (d 20) (script 5:1:0 15:2:10 c:1) [(unsub 30)])
//!   (timedlts delay    (d 10) (script 5:1:3 e:2)          [(unsub 12)])
//!   (timedlts interval (d 10) [(take 3)] [(unsub 25)])
//!   (timedlts timer    (d 10) [(unsub 5)])
//!   (timedlts debounce (d 10) (script 5:1 5:2 c:30)        [(unsub 12)])
//!   (timedlts sample   (script 5:1 5:2 c:30) (trigger 7:0 7:0 c:1) [(unsub 12)])
//!   (timedlts rounds   (d 10) (rounds 25:5 10:12))          `hold:pause` per round (Rx.Timed.Rounds)
//! Script entries are written as in `Rx.Timed.parseEntry`: `<wait>:<value>[:<handling>]` = next(value), the subscriber's
//! callback then takes `handling` virtual ms; `c:<wait>` = complete; `e:<wait>` = error; `<wait>` = `<g>` (sleep g after
//! the previous call returned) or `@<t>` (sleep until the absolute instant t).
//! The mapping event -> label is documented at `render`.
use crate::sexp::Sexp;
use crate::{Outcome, Scenario};
use another_rxrust::prelude::*;
use another_rxrust::verif_facade as facade;
use another_rxrust::verif_std::thread as vthread;
use std::collections::HashMap;
use std::sync::Arc;
use std::time::Duration;

#[derive(Clone, Copy, PartialEq, Debug)]
pub enum Kind {
  Timeout,
  Delay,
  Interval,
  Timer,
  Debounce,
  Sample,
  Rounds,
}

#[derive(Clone, Copy, Debug)]
enum Wait {
  Rel(u64),
  Abs(u64),
}

#[derive(Clone, Copy, Debug)]
enum Ev {
  N(i64),
  E,
  C,
}

#[derive(Clone, Copy, Debug)]
struct Entry {
  wait: Wait,
  ev: Ev,
  h: u64,
}

pub struct TimedSc {
  kind: Kind,
  d: u64,
  script: Vec<Entry>,
  trigger: Vec<Entry>,
  unsub: Option<u64>,
  take: Option<usize>,
  /// Rounds: (hold, pause) per round
  rounds: Vec<(u64, u64)>,
  /// the parameters as text, copied into every rendered line (the Lean side parses them)
  text: String,
}

#[derive(Debug)]
#[allow(dead_code)]
struct EP(i64);

fn parse_wait(s: &str) -> Option<Wait> {
  match s.strip_prefix('@') {
    Some(t) => t.parse().ok().map(Wait::Abs),
    None => s.parse().ok().map(Wait::Rel),
  }
}

fn parse_entry(tok: &str) -> Option<Entry> {
  let p: Vec<&str> = tok.split(':').collect();
  match p.as_slice() {
    ["c", g] => Some(Entry { wait: parse_wait(g)?, ev: Ev::C, h: 0 }),
    ["e", g] => Some(Entry { wait: parse_wait(g)?, ev: Ev::E, h: 0 }),
    [g, v, h] => Some(Entry { wait: parse_wait(g)?, ev: Ev::N(v.parse().ok()?), h: h.parse().ok()? }),
    [g, v] => Some(Entry { wait: parse_wait(g)?, ev: Ev::N(v.parse().ok()?), h: 0 }),
    _ => None,
  }
}

pub fn build(a: &[Sexp]) -> Option<Box<dyn Scenario>> {
  let kind = match a.first()?.atom()? {
    "timeout" => Kind::Timeout,
    "delay" => Kind::Delay,
    "interval" => Kind::Interval,
    "timer" => Kind::Timer,
    "debounce" => Kind::Debounce,
    "sample" => Kind::Sample,
    "rounds" => Kind::Rounds,
    _ => return None,
  };
  let mut sc = TimedSc { kind, d: 0, script: Vec::new(), trigger: Vec::new(), unsub: None, take: None, rounds: Vec::new(), text: String::new() };
  let mut text: Vec<String> = vec![format!("kind={}", a.first()?.atom()?)];
  for x in a[1..].iter() {
    let (h, rest) = x.call()?;
    let toks: Vec<&str> = rest.iter().filter_map(|t| t.atom()).collect();
    if toks.len() != rest.len() {
      return None;
    }
    match h {
      "d" => sc.d = toks.first()?.parse().ok()?,
      "unsub" => sc.unsub = Some(toks.first()?.parse().ok()?),
      "take" => sc.take = Some(toks.first()?.parse().ok()?),
      "script" => sc.script = toks.iter().map(|t| parse_entry(t)).collect::<Option<Vec<_>>>()?,
      "trigger" => sc.trigger = toks.iter().map(|t| parse_entry(t)).collect::<Option<Vec<_>>>()?,
      "rounds" => {
        for t in toks.iter() {
          let (a, b) = t.split_once(':')?;
          sc.rounds.push((a.parse().ok()?, b.parse().ok()?));
        }
      }
      _ => return None,
    }
    text.push(format!("{}={}", h, if toks.is_empty() { "-".to_string() } else { toks.join(",") }));
  }
  sc.text = text.join(" ");
  Some(Box::new(sc))
}

fn h(text: String) {
  facade::log("h", 0, "", format!("{}@{}", text, facade::now()));
}

fn vsleep(ms: u64) {
  if ms > 0 {
    vthread::sleep(Duration::from_millis(ms));
  }
}

/// a scripted thread: `who` = "src" | "trg"; stamps `<who>` at its start, `<who>call <ev>` when the wait before an
/// entry is over, `<who>ret` when the observer method returned
fn play(who: &'static str, script: &[Entry], s: &Observer<'static, i64>) {
  h(who.to_string());
  for e in script {
    match e.wait {
      Wait::Rel(g) => vsleep(g),
      Wait::Abs(t) => {
        let now = facade::now();
        if now < t {
          vsleep(t - now)
        }
      }
    }
    match e.ev {
      Ev::N(v) => {
        h(format!("{}call n{}", who, v));
        s.next(v)
      }
      Ev::E => {
        h(format!("{}call e", who));
        s.error(RxError::from_error(EP(1)))
      }
      Ev::C => {
        h(format!("{}call c", who));
        s.complete()
      }
    }
    h(format!("{}ret", who));
  }
  h(format!("{}done", who));
}

fn scripted(who: &'static str, script: Vec<Entry>) -> Observable<'static, i64> {
  Observable::create(move |s: Observer<'static, i64>| {
    let sc = script.clone();
    vthread::spawn(move || play(who, &sc, &s));
  })
}

/// virtual time the main thread lets pass before it stamps `END` (everything the LTS describes is over long before)
const HORIZON: u64 = 5_000;

fn err_text(e: &RxError) -> &'static str {
  match e.downcast_ref::<std::io::Error>() {
    Some(io) if io.kind() == std::io::ErrorKind::TimedOut => "eT",
    _ => "e",
  }
}

/// subscribe with callbacks that stamp `cb <record>` when they start and `cbret` when they return; the `next`
/// callback of item v sleeps `hs[v]` virtual ms in between (the slow consumer of the LTS's `handling`)
fn sub_i64(o: &Observable<'static, i64>, hs: HashMap<i64, u64>) -> Subscription<'static> {
  o.subscribe(
    move |v: i64| {
      h(format!("cb n{}", v));
      vsleep(hs.get(&v).copied().unwrap_or(0));
      h("cbret".into());
    },
    |e: RxError| {
      h(format!("cb {}", err_text(&e)));
      h("cbret".into());
    },
    || {
      h("cb c".into());
      h("cbret".into());
    },
  )
}

impl Scenario for TimedSc {
  fn timed(&self) -> bool {
    true
  }

  fn body(&self) -> Arc<dyn Fn() + Send + Sync> {
    let (kind, d, unsub, take) = (self.kind, self.d, self.unsub, self.take);
    let script = self.script.clone();
    let trigger = self.trigger.clone();
    let rounds = self.rounds.clone();
    Arc::new(move || {
      let dur = Duration::from_millis(d);
      if kind == Kind::Rounds {
        // the driver of `Rx.Timed.Rounds` on a thread of its own (LTS thread 0)
        let rounds = rounds.clone();
        vthread::spawn(move || {
          h("drv".into());
          for (hold, pause) in rounds {
            h("drvsub".into());
            let sb = observables::interval(dur, schedulers::new_thread_scheduler()).subscribe(|_: u64| h("ticked".into()), |_| {}, || {});
            h("drvsubret".into());
            vsleep(hold);
            h("drvunsub".into());
            sb.unsubscribe();
            h("drvunsubret".into());
            vsleep(pause);
            h("drvnext".into());
          }
        });
        vsleep(HORIZON);
        h("END".into());
        vsleep(1_000);
        return;
      }
      let hs: HashMap<i64, u64> = script.iter().filter_map(|e| if let Ev::N(v) = e.ev { Some((v, e.h)) } else { None }).collect();
      h("setup".into());
      let nts = schedulers::new_thread_scheduler;
      let sub: Subscription<'static> = match kind {
        Kind::Rounds => return,
        Kind::Timeout => sub_i64(&scripted("src", script.clone()).timeout(dur, nts()), hs),
        Kind::Delay => sub_i64(&scripted("src", script.clone()).delay(dur), hs),
        Kind::Debounce => sub_i64(&scripted("src", script.clone()).debounce(dur, nts()), hs),
        Kind::Sample => sub_i64(&scripted("src", script.clone()).sample(scripted("trg", trigger.clone())), hs),
        Kind::Interval => {
          let o = observables::interval(dur, nts());
          let o = match take {
            Some(c) => o.take(c),
            None => o,
          };
          o.subscribe(
            |v: u64| {
              h(format!("cb n{}", v));
              h("cbret".into());
            },
            |e: RxError| {
              h(format!("cb {}", err_text(&e)));
              h("cbret".into());
            },
            || {
              h("cb c".into());
              h("cbret".into());
            },
          )
        }
        Kind::Timer => observables::timer(dur, nts()).subscribe(
          |_: ()| {
            h("cb nu".into());
            h("cbret".into());
          },
          |e: RxError| {
            h(format!("cb {}", err_text(&e)));
            h("cbret".into());
          },
          || {
            h("cb c".into());
            h("cbret".into());
          },
        ),
      };
      h("subscribed".into());
      if let Some(u) = unsub {
        let sb = sub.clone();
        vthread::spawn(move || {
          h("unsub".into());
          vsleep(u);
          h("ucall".into());
          sb.unsubscribe();
          h("uret".into());
        });
      }
      vsleep(HORIZON);
      // the LTS run ends here; what follows only winds the execution down (a source that never terminates)
      h("END".into());
      if sub.is_subscribed() {
        sub.unsubscribe();
      }
      vsleep(1_000);
      facade::set_logging(false);
      drop(sub);
      facade::set_logging(true);
    })
  }

  fn render(&self, out: &Outcome) -> String {
    if std::env::var("RXH_RAW").is_ok() {
      let mut s = String::new();
      for (i, e) in out.events.iter().enumerate() {
        s.push_str(&format!("\n  {:4} t{} {} #{} {} {}", i, e.tid, e.kind, e.obj, e.site, e.payload));
      }
      return s;
    }
    render(self, out)
  }
}

// ---- rendering --------------------------------------------------------------------------------------------------
//
// Thread roles (from the recorded marks / spawn order, never from the scenario text):
//   the thread that stamps `src` is the LTS's source thread (0), `unsub` the unsubscriber (1), `trg` Sample's trigger
//   thread (2); the library's own threads (they log `start` and stamp none of these) are numbered in the order of their
//   task ids = the order of the recorded `spawn` events: the i-th is timer thread `2 + i` of Timeout, the worker (0) of
//   Interval / Timer, the scheduler thread (2) of Debounce.
// Lock names (creation order inside one constructor is fixed; every guess is verified against the recorded creation
//   site, `table=BAD` otherwise):
//   sN sE sC  the subscriber's fn_next / fn_error / fn_complete: the three locks created before the first written
//             `observer:` lock (its fn_on_unsubscribe)
//   serial unsc fin  of the operator's StreamController: the lowest `stream_controller:` lock with the lowest line, +1, +2
//   uN uE uC  the observer handed to the source: first read, after `serial` was written, of a function_wrapper lock created
//             after `serial` (new_observer -> inner_subscribe -> is_subscribed on the fresh observer; the subscriber's own
//             slots are older than its controller); the same rule gives wN wE wC of the i-th armed timer (i-th later `serial`)
//   cell      Timeout's `timer` cell (`timeout:` site); value = Debounce's / Sample's `value` cell
//   qAbort    `abort` flag of a scheduler queue
#[derive(Clone, Copy, PartialEq, Debug)]
enum Lk {
  SN,
  SE,
  SC,
  UN,
  UE,
  UC,
  Unsc,
  Fin,
  Cell,
  W(usize, usize), // (timer index, slot 0..2)
  TN(usize),       // trigger observer's fn_next (Sample)
  QAbort,
  QMutex,
  Other,
}

#[derive(Clone, Debug)]
struct Tok {
  g: usize, // index in the global event log
  kind: &'static str,
  lk: Lk,
  text: String, // payload of marks (without the `@time`), wake-up instant of sleep / wake, instant of exit
}

/// one LTS micro-step, and the record(s) the subscriber's callbacks stamped inside its section
#[derive(Clone, Debug)]
struct Lab {
  /// the code section of the step: first / last recorded event of the thread that belongs to it
  lo: usize,
  hi: usize,
  /// the event the step is linearised at by default (lo <= at <= hi)
  at: usize,
  /// `tick <t>` or `run <tid>`
  text: String,
  out: Option<String>,
}

struct Table {
  names: HashMap<usize, Lk>,
  ok: bool,
  timers: usize,
}

fn line_of(site: &str) -> usize {
  site.rsplit(':').next().and_then(|x| x.parse().ok()).unwrap_or(0)
}

fn build_table(ev: &[facade::Event], kind: Kind) -> Table {
  let fw = |s: &str| s.starts_with("function_wrapper:");
  let mut names: HashMap<usize, Lk> = HashMap::new();
  let mut ok = true;
  let mut site_of: HashMap<usize, String> = HashMap::new();
  for e in ev.iter() {
    if matches!(e.kind, "acq_r" | "acq_w" | "lock") {
      site_of.entry(e.obj).or_insert_with(|| e.site.clone());
    }
  }
  // subscriber
  if let Some(u) = ev.iter().find(|e| e.kind == "acq_w" && e.site.starts_with("observer:")).map(|e| e.obj) {
    if u >= 4 {
      names.insert(u - 3, Lk::SN);
      names.insert(u - 2, Lk::SE);
      names.insert(u - 1, Lk::SC);
    }
  } else {
    // Interval without take / Timer: nobody sets on_unsubscribe; the subscriber's slots are the first three
    // function_wrapper locks read (inner_subscribe's is_subscribed)
    if let Some(e) = ev.iter().find(|e| e.kind == "acq_r" && fw(&e.site)) {
      names.insert(e.obj, Lk::SN);
      names.insert(e.obj + 1, Lk::SE);
      names.insert(e.obj + 2, Lk::SC);
    } else {
      ok = false;
    }
  }
  // stream controllers, in creation order
  let sc_line = site_of.values().filter(|s| s.starts_with("stream_controller:")).map(|s| line_of(s)).min();
  let mut serials: Vec<usize> = Vec::new();
  if let Some(l) = sc_line {
    let site = format!("stream_controller:{}", l);
    serials = site_of.iter().filter(|(_, s)| **s == site).map(|(o, _)| *o).collect();
    serials.sort();
  }
  let mut timers = 0usize;
  for (k, ser) in serials.iter().enumerate() {
    // the observer made by `new_observer`
    let slots = ev.iter().position(|e| e.kind == "acq_w" && e.obj == *ser).and_then(|p| {
      let t = ev[p].tid;
      ev[p..].iter().find(|e| e.tid == t && e.kind == "acq_r" && fw(&e.site) && e.obj > *ser).map(|e| e.obj)
    });
    if k == 0 {
      names.insert(ser + 1, Lk::Unsc);
      names.insert(ser + 2, Lk::Fin);
      if let Some(n) = slots {
        if kind == Kind::Interval {
          for j in 0..3 {
            names.insert(n + j, Lk::W(0, j));
          }
          timers = 1;
        } else {
          names.insert(n, Lk::UN);
          names.insert(n + 1, Lk::UE);
          names.insert(n + 2, Lk::UC);
        }
      } else {
        ok = false;
      }
    } else if kind == Kind::Timeout {
      match slots {
        Some(n) => {
          for j in 0..3 {
            names.insert(n + j, Lk::W(k - 1, j));
          }
          timers = k;
        }
        None => ok = false,
      }
    }
  }
  if kind == Kind::Sample {
    // both observers are made first (trigger, then source), then `trigger.inner_subscribe` (its is_subscribed reads the
    // trigger observer's slots, then the trigger thread is spawned), then `source.inner_subscribe`
    names.retain(|_, n| !matches!(n, Lk::UN | Lk::UE | Lk::UC));
    let mut found = false;
    if let Some(p) = serials.first().and_then(|ser| ev.iter().position(|e| e.kind == "acq_w" && e.obj == *ser)) {
      let t = ev[p].tid;
      let ser = ev[p].obj;
      if let Some(p1) = ev[p..].iter().position(|e| e.tid == t && e.kind == "acq_r" && fw(&e.site) && e.obj > ser).map(|q| p + q) {
        for j in 0..3 {
          names.insert(ev[p1].obj + j, Lk::TN(j));
        }
        if let Some(p2) = ev[p1..].iter().position(|e| e.tid == t && e.kind == "spawn").map(|q| p1 + q) {
          let tn = ev[p1].obj;
          if let Some(e) = ev[p2..].iter().find(|e| e.tid == t && e.kind == "acq_r" && fw(&e.site) && e.obj > tn + 2) {
            names.insert(e.obj, Lk::UN);
            names.insert(e.obj + 1, Lk::UE);
            names.insert(e.obj + 2, Lk::UC);
            found = true;
          }
        }
      }
    }
    if !found {
      ok = false;
    }
  }
  for (o, s) in site_of.iter() {
    if s.starts_with("timeout:") || s.starts_with("debounce:") || s.starts_with("sample:") {
      names.insert(*o, Lk::Cell);
    } else if s.starts_with("async_function_queue:") {
      let is_mutex = ev.iter().any(|e| e.obj == *o && e.kind == "lock");
      let is_cond = ev.iter().any(|e| e.obj == *o && matches!(e.kind, "cond" | "notify" | "wait" | "woken"));
      if is_mutex {
        names.insert(*o, Lk::QMutex);
      } else if !is_cond {
        names.insert(*o, Lk::QAbort);
      }
    }
  }
  // every named slot must have been created where its name says
  for (o, n) in names.iter() {
    let s = site_of.get(o).cloned().unwrap_or_default();
    let good = match n {
      Lk::Unsc | Lk::Fin => s.starts_with("stream_controller:") || s.is_empty(),
      Lk::Cell | Lk::QAbort | Lk::QMutex => true,
      _ => fw(&s) || s.is_empty(),
    };
    if !good {
      ok = false;
    }
  }
  Table { names, ok, timers }
}

fn run_lab(tid: usize, lo: usize, at: usize, hi: usize, out: Option<String>) -> Lab {
  Lab { lo: lo.min(at), hi: hi.max(at), at, text: format!("run {}", tid), out }
}

fn point(tid: usize, at: usize) -> Lab {
  run_lab(tid, at, at, at, None)
}

/// tokens of one thread
fn tokens(ev: &[facade::Event], tid: usize, tb: &Table) -> Vec<Tok> {
  let mut v = Vec::new();
  for (g, e) in ev.iter().enumerate() {
    if e.tid != tid {
      continue;
    }
    let lk = if matches!(e.kind, "acq_r" | "acq_w" | "rel" | "lock" | "unlock") { tb.names.get(&e.obj).copied().unwrap_or(Lk::Other) } else { Lk::Other };
    let text = if e.kind == "h" { e.payload.rsplitn(2, '@').last().unwrap_or("").to_string() } else { e.payload.clone() };
    v.push(Tok { g, kind: e.kind, lk, text });
  }
  v
}

fn is_s(lk: Lk) -> bool {
  matches!(lk, Lk::SN | Lk::SE | Lk::SC)
}

fn is_acq(t: &Tok) -> bool {
  matches!(t.kind, "acq_r" | "acq_w" | "lock")
}

/// position of the next acquisition / mark / sleep / spawn / exit at or after `i` (releases, condvar traffic skipped)
fn next_sig(t: &[Tok], mut i: usize) -> usize {
  while i < t.len() && !(is_acq(&t[i]) || matches!(t[i].kind, "h" | "sleep" | "wake" | "spawn" | "exit")) {
    i += 1;
  }
  i
}

/// `is_subscribed()` starting at position `i` (an `acq_r` of slot 0 of some observer): positions of its reads
/// (slot 0, then slot 1, then slot 2 of the SAME observer, consecutive lock ids) and the position after them
fn sub_reads(t: &[Tok], ev: &[facade::Event], i: usize) -> (Vec<usize>, usize) {
  let mut reads = vec![i];
  let base = ev[t[i].g].obj;
  let mut j = next_sig(t, i + 1);
  while reads.len() < 3 && j < t.len() && t[j].kind == "acq_r" && ev[t[j].g].obj == base + reads.len() {
    reads.push(j);
    j = next_sig(t, j + 1);
  }
  (reads, j)
}

/// records stamped by callbacks (`cb <rec>` marks) between positions a..b, joined by `,`
fn outs(t: &[Tok], a: usize, b: usize) -> Option<String> {
  let v: Vec<&str> = t[a..b.min(t.len())].iter().filter(|x| x.kind == "h" && x.text.starts_with("cb ")).map(|x| &x.text[3..]).collect();
  if v.is_empty() {
    None
  } else {
    Some(v.join(","))
  }
}

/// the `IW` worker of Timed.lean (an `interval` loop on a scheduler thread): Interval's thread 0, Timeout's timer
/// threads, steps
///   top -> sleeping      the `sleep` event
///   sleeping -> emit     `is_subscribed()` after the `wake` returned true (a 4th read, of fn_next again, follows: `s.next`):
///                        section = its reads, linearised at the first
///   sleeping -> abort    ... returned false (the queue mutex follows: `abort()`): linearised at the last read
///   emit -> top          `s.next(n)`: from the fetch of fn_next to the last event before the next `sleep` (two steps for a
///                        tick of Interval that is delivered and completes `take`, see below); linearised at the
///                        last access to the SUBSCRIBER's fn_next before its callback ran (the read / claim that decided the
///                        delivery); when nothing was delivered, at the last read of the `is_subscribed()` that refused it,
///                        or at the fetch itself when that found the observer cleared
///   abort -> ret         the write of the queue's `abort` flag
///   ret -> exited        the `exit` event
fn parse_iw(t: &[Tok], ev: &[facade::Event], tid: usize, split_take: bool, labs: &mut Vec<Lab>, bad: &mut Vec<String>) {
  let mut i = match t.iter().position(|x| x.kind == "sleep") {
    Some(i) => i,
    None => return,
  };
  loop {
    // top -> sleeping
    labs.push(point(tid, t[i].g));
    let w = match t[i..].iter().position(|x| x.kind == "wake") {
      Some(w) => i + w,
      None => return, // still asleep at the end
    };
    let c = next_sig(t, w + 1);
    if c >= t.len() || t[c].kind != "acq_r" {
      bad.push(format!("worker {}: no is_subscribed after wake", tid));
      return;
    }
    let (reads, after) = sub_reads(t, ev, c);
    let again = after < t.len() && t[after].kind == "acq_r" && ev[t[after].g].obj == ev[t[c].g].obj && reads.len() == 3;
    if again {
      labs.push(run_lab(tid, t[reads[0]].g, t[reads[0]].g, t[*reads.last().unwrap()].g, None));
      // emit
      let gate = after;
      let end = t[gate..].iter().position(|x| x.kind == "sleep").map(|p| gate + p).unwrap_or(t.len());
      let first_cb = t[gate..end].iter().position(|x| x.kind == "h" && x.text.starts_with("cb ")).map(|p| gate + p);
      let at = match first_cb {
        Some(cb) => t[gate..cb].iter().rposition(|x| x.lk == Lk::SN && is_acq(x)).map(|p| gate + p).unwrap_or(gate),
        None => {
          // the subscriber's is_subscribed that refused the delivery (or the lost claim)
          match t[gate + 1..end].iter().position(|x| is_s(x.lk) && is_acq(x)) {
            Some(p) => {
              let mut q = gate + 1 + p;
              loop {
                let n = next_sig(t, q + 1);
                if n < end && is_s(t[n].lk) && is_acq(&t[n]) && !(t[n].lk == Lk::SN && t[n].kind == "acq_r") {
                  q = n;
                } else {
                  break;
                }
              }
              q
            }
            None => gate,
          }
        }
      };
      let hi = if end > gate { end - 1 } else { gate };
      // Interval with `take`: a tick that is delivered AND completes `take` is two steps (take.rs: `sink_next`, then
      // `upstream_abort_observe; sink_complete; finalize`, which starts with a write of the controller's `unscribers`)
      let halves = if split_take {
        first_cb.and_then(|cb| {
          let cr = t[cb..end].iter().position(|x| x.kind == "h" && x.text == "cbret").map(|p| cb + p)?;
          if t[cb].text.starts_with("cb n") && t[cr..end].iter().any(|x| x.kind == "acq_w" && x.lk == Lk::Unsc) {
            Some(cr)
          } else {
            None
          }
        })
      } else {
        None
      };
      match halves {
        Some(cr) => {
          labs.push(run_lab(tid, t[gate].g, t[at].g, t[cr].g, outs(t, gate, cr)));
          let lo = next_sig(t, cr + 1).min(hi);
          let (at2, _) = terminal_decision(t, lo, end);
          labs.push(run_lab(tid, t[lo].g, t[at2].g, t[hi].g, outs(t, lo, end)));
        }
        None => labs.push(run_lab(tid, t[gate].g, t[at].g, t[hi].g, outs(t, gate, end))),
      }
      if end >= t.len() {
        return;
      }
      i = end;
    } else {
      labs.push(run_lab(tid, t[reads[0]].g, t[*reads.last().unwrap()].g, t[*reads.last().unwrap()].g, None));
      match t[after..].iter().position(|x| x.lk == Lk::QAbort && x.kind == "acq_w") {
        Some(p) => labs.push(point(tid, t[after + p].g)),
        None => return,
      }
      if let Some(p) = t[after..].iter().position(|x| x.kind == "exit") {
        labs.push(point(tid, t[after + p].g));
      }
      return;
    }
  }
}

/// Timer's worker (thread 0 of `Rx.Timed.Timer`):
///   top -> sleeping `sleep`;  sleeping -> next `wake`;  next -> complete  `s.next(())` = the fetch of fn_next (read);
///   complete -> abort  `s.complete()` = the claim of fn_next (write) .. the last event before the queue mutex;
///   abort -> ret  write of `abort`;  ret -> exited  `exit`
fn parse_timer_worker(t: &[Tok], tid: usize, labs: &mut Vec<Lab>, bad: &mut Vec<String>) {
  let s = match t.iter().position(|x| x.kind == "sleep") {
    Some(i) => i,
    None => return,
  };
  labs.push(point(tid, t[s].g));
  let w = match t[s..].iter().position(|x| x.kind == "wake") {
    Some(w) => s + w,
    None => return,
  };
  labs.push(point(tid, t[w].g));
  let f = next_sig(t, w + 1);
  if f >= t.len() || !(t[f].kind == "acq_r" && t[f].lk == Lk::SN) {
    bad.push("timer worker: no fetch of fn_next after the wake".into());
    return;
  }
  let c = match t[f + 1..].iter().position(|x| x.kind == "acq_w" && x.lk == Lk::SN) {
    Some(p) => f + 1 + p,
    None => {
      bad.push("timer worker: no claim of fn_next".into());
      return;
    }
  };
  labs.push(run_lab(tid, t[f].g, t[f].g, t[c - 1].g, outs(t, f, c)));
  let q = t[c..].iter().position(|x| x.lk == Lk::QMutex && x.kind == "lock").map(|p| c + p).unwrap_or(t.len());
  labs.push(run_lab(tid, t[c].g, t[c].g, t[q - 1].g, outs(t, c, q)));
  if let Some(p) = t[c..].iter().position(|x| x.lk == Lk::QAbort && x.kind == "acq_w") {
    labs.push(point(tid, t[c + p].g));
    if let Some(e) = t[c + p..].iter().position(|x| x.kind == "exit") {
      labs.push(point(tid, t[c + p + e].g));
    }
  }
}

/// the unsubscribing thread (LTS thread 1).  `Subscription::unsubscribe` = `Observer::unsubscribe` on the subscriber:
///   two-step models (Timeout, Debounce, Sample; `UPc`):  waiting -> fin = the clear of the subscriber's fn_next (write);
///       fin -> done = `on_unsubscribe` = `finalize`: from the event after the three clears to `uret`, linearised at the
///       clear of the source observer's fn_next when there is one (that is what the source thread can see of it)
///   one-step models (Interval, Timer, Delay): the whole call, linearised at the clear of the subscriber's fn_next
fn parse_unsub(t: &[Tok], two: bool, labs: &mut Vec<Lab>, bad: &mut Vec<String>) {
  let c = match t.iter().position(|x| x.kind == "h" && x.text == "ucall") {
    Some(c) => c,
    None => return,
  };
  let r = t.iter().position(|x| x.kind == "h" && x.text == "uret").unwrap_or(t.len() - 1);
  let n = match t[c..r].iter().position(|x| x.kind == "acq_w" && x.lk == Lk::SN) {
    Some(p) => c + p,
    None => {
      bad.push("unsubscriber: no clear of the subscriber's fn_next".into());
      return;
    }
  };
  if !two {
    labs.push(run_lab(1, t[n].g, t[n].g, t[r].g, None));
    return;
  }
  // the clears of fn_error / fn_complete belong to the first step
  let mut e = n;
  loop {
    let k = next_sig(t, e + 1);
    if k < r && t[k].kind == "acq_w" && matches!(t[k].lk, Lk::SE | Lk::SC) {
      e = k;
    } else {
      break;
    }
  }
  labs.push(run_lab(1, t[n].g, t[n].g, t[e].g, None));
  let lo = next_sig(t, e + 1).min(r);
  let at = t[lo..r].iter().position(|x| x.kind == "acq_w" && x.lk == Lk::UN).map(|p| lo + p).unwrap_or(lo);
  labs.push(run_lab(1, t[lo].g, t[at].g, t[r].g, None));
}

fn find_rel(t: &[Tok], from: usize, lk: Lk, end: usize) -> Option<usize> {
  t[from..end.min(t.len())].iter().position(|x| x.kind == "rel" && x.lk == lk).map(|p| from + p)
}

/// where a terminal call decided whether the subscriber gets the event: the claim of the subscriber's fn_next that
/// preceded its callback, else the last read of the `is_subscribed()` that refused it (or the lost claim), else `g`
fn terminal_decision(t: &[Tok], g: usize, r: usize) -> (usize, Option<usize>) {
  let cb = t[g..r].iter().position(|x| x.kind == "h" && x.text.starts_with("cb ")).map(|p| g + p);
  let at = match cb {
    Some(cb) => t[g..cb].iter().rposition(|x| x.kind == "acq_w" && x.lk == Lk::SN).map(|p| g + p).unwrap_or(g),
    None => match t[g..r].iter().position(|x| x.kind == "acq_r" && x.lk == Lk::SN) {
      Some(p) => {
        let mut q = g + p;
        loop {
          let n = next_sig(t, q + 1);
          if n < r && is_s(t[n].lk) && is_acq(&t[n]) && !(t[n].lk == Lk::SN && t[n].kind == "acq_r") {
            q = n;
          } else {
            break;
          }
        }
        q
      }
      None => g,
    },
  };
  (at, cb)
}

/// `Observer::error` / `complete` whose callback did not run: nothing is recorded between the claim of fn_next at `g` and
/// `r` but writes of the other two slots (the claim failed, or the slot with the callback was cleared by an
/// unsubscribing thread between the claim and `call_and_clear`).  Returns the position of the last of these writes.
fn no_callback(t: &[Tok], g: usize, r: usize) -> Option<usize> {
  let mut last = g;
  let mut i = next_sig(t, g + 1);
  while i < r {
    if t[i].kind == "acq_w" && matches!(t[i].lk, Lk::UE | Lk::UC) {
      last = i;
      i = next_sig(t, i + 1);
    } else {
      return None;
    }
  }
  Some(last)
}

/// a terminal call of the source (`s.error` / `s.complete`), one LTS step `call -> advance`:
///   section = from the claim of the source observer's fn_next (write) to the last event before `srcret`;
///   linearised at the claim of the SUBSCRIBER's fn_next that preceded its callback; when nothing was delivered at the last
///   read of the `is_subscribed()` that refused it (or the lost claim); when the callback did not run at all (`no_callback`:
///   the LTS's `call -> advance` for a cleared source observer) the section is the slot operations, linearised at the last
fn parse_terminal(t: &[Tok], a: usize, r: usize, labs: &mut Vec<Lab>, bad: &mut Vec<String>) {
  let g = next_sig(t, a);
  if g >= r || !(t[g].kind == "acq_w" && t[g].lk == Lk::UN) {
    bad.push("source terminal: no claim of the source observer's fn_next".into());
    return;
  }
  if let Some(l) = no_callback(t, g, r) {
    labs.push(run_lab(0, t[g].g, t[l].g, t[l].g, None));
    return;
  }
  let (at, _) = terminal_decision(t, g, r);
  labs.push(run_lab(0, t[g].g, t[at].g, t[r - 1].g, outs(t, g, r)));
}

/// `sink_next` on the source thread starting at position `p` (the first read of its `is_subscribed()`), one LTS step
/// (Delay `mid1`, Timeout `(mid1, deliver)`): linearised at the fetch of the subscriber's fn_next (the 4th read) when
/// `is_subscribed()` was true, else at its last read (`finalize` follows and belongs to the section).  When the callback
/// slept (`handling` > 0) a second step is linearised at `cbret`.  Returns the position after the call.
fn parse_sink_next(tid: usize, t: &[Tok], ev: &[facade::Event], p: usize, r: usize, labs: &mut Vec<Lab>, bad: &mut Vec<String>) -> usize {
  if p >= r || !(t[p].kind == "acq_r" && t[p].lk == Lk::SN) {
    bad.push("source: sink_next does not start with a read of the subscriber's fn_next".into());
    return r;
  }
  let (reads, after) = sub_reads(t, ev, p);
  let fetch = reads.len() == 3 && after < r && t[after].kind == "acq_r" && t[after].lk == Lk::SN;
  if fetch {
    let m = next_sig(t, after + 1);
    if m < r && t[m].kind == "h" && t[m].text.starts_with("cb ") {
      let cr = t[m..r].iter().position(|x| x.kind == "h" && x.text == "cbret").map(|q| m + q).unwrap_or(r - 1);
      let slept = t[m..cr].iter().any(|x| x.kind == "sleep");
      labs.push(run_lab(tid, t[p].g, t[after].g, t[m].g, outs(t, p, cr)));
      if slept {
        labs.push(point(tid, t[cr].g));
      }
      cr + 1
    } else {
      labs.push(run_lab(tid, t[p].g, t[after].g, t[after].g, None));
      after + 1
    }
  } else {
    let last = *reads.last().unwrap();
    let fe = find_rel(t, last, Lk::Fin, r).unwrap_or(last);
    labs.push(run_lab(tid, t[p].g, t[last].g, t[fe].g, None));
    fe + 1
  }
}

/// the source thread (LTS thread 0) of Timeout / Delay.  Per script entry:
///   sleeping -> call            the `srccall` stamp (the wait is over)
///   call -> ..                  `s.next(x)`: the fetch of the source observer's fn_next (read); when nothing follows before
///                               `srcret` the observer was cleared (`call -> advance`).
///     Delay:    call -> mid1 = that fetch (.. the `sleep` of the handler);  mid1 -> [mid2 ->] advance = `sink_next` (above)
///     Timeout:  call -> (mid1, deliver) = the fetch .. release of the `timer` cell (the old timer is cancelled under it);
///               (mid1, deliver) -> [(mid1, handling) ->] (mid2, test) = `sink_next` (above);
///               (mid2, test) = the next `is_subscribed()`: true iff a thread is spawned before `srcret` (first read), else
///                 its last read;  (mid2, store) = the `spawn` event .. release of the cell;  (mid2, recheck) = the next
///                 `is_subscribed()`: false iff the cell is written once more (section extends to `srcret`)
///   terminal entries: see `parse_terminal`
fn parse_src(t: &[Tok], ev: &[facade::Event], kind: Kind, labs: &mut Vec<Lab>, bad: &mut Vec<String>) {
  let mut i = 0usize;
  loop {
    let c = match t[i..].iter().position(|x| x.kind == "h" && x.text.starts_with("srccall ")) {
      Some(p) => i + p,
      None => return,
    };
    let r = match t[c..].iter().position(|x| x.kind == "h" && x.text == "srcret") {
      Some(p) => c + p,
      None => {
        bad.push("source: a call did not return before END".into());
        return;
      }
    };
    labs.push(point(0, t[c].g));
    i = r + 1;
    if !t[c].text.starts_with("srccall n") {
      if kind == Kind::Debounce {
        parse_terminal_debounce(t, c + 1, r, labs, bad);
      } else {
        parse_terminal(t, c + 1, r, labs, bad);
      }
      continue;
    }
    let gate = next_sig(t, c + 1);
    if gate >= r || !(t[gate].kind == "acq_r" && t[gate].lk == Lk::UN) {
      bad.push("source: no fetch of the source observer's fn_next".into());
      return;
    }
    if next_sig(t, gate + 1) >= r {
      labs.push(point(0, t[gate].g));
      continue;
    }
    if matches!(kind, Kind::Debounce | Kind::Sample) {
      // `*value.write() = Some(x)`: one step, from the fetch to the write of the value cell, linearised at the write
      match t[gate..r].iter().position(|x| x.kind == "acq_w" && x.lk == Lk::Cell) {
        Some(p) => labs.push(run_lab(0, t[gate].g, t[gate + p].g, t[gate + p].g, None)),
        None => bad.push("source: the item was not stored in the value cell".into()),
      }
      continue;
    }
    if kind == Kind::Delay {
      let s = next_sig(t, gate + 1);
      let w = t[s..r].iter().position(|x| x.kind == "wake").map(|p| s + p);
      match (t[s].kind, w) {
        ("sleep", Some(w)) => {
          labs.push(run_lab(0, t[gate].g, t[gate].g, t[s].g, None));
          parse_sink_next(0, t, ev, next_sig(t, w + 1), r, labs, bad);
        }
        _ => bad.push("source: delay's handler did not sleep".into()),
      }
      continue;
    }
    // Timeout.  Best effort on code of another shape (a mutant): steps whose events are missing are not rendered, the
    // LTS then refuses what follows.
    let mut cur = gate + 1;
    let f = next_sig(t, cur);
    if f < r && t[f].kind == "acq_w" && t[f].lk == Lk::Cell {
      let e1 = find_rel(t, f, Lk::Cell, r).unwrap_or(f);
      labs.push(run_lab(0, t[gate].g, t[gate].g, t[e1].g, None));
      cur = e1 + 1;
    } else {
      bad.push("source: timeout's handler did not take the timer cell first".into());
    }
    let cur = parse_sink_next(0, t, ev, next_sig(t, cur), r, labs, bad);
    let q = next_sig(t, cur);
    if q >= r || !(t[q].kind == "acq_r" && t[q].lk == Lk::SN) {
      bad.push("source: no is_subscribed after sink_next".into());
      continue;
    }
    let (rd, _) = sub_reads(t, ev, q);
    let last = *rd.last().unwrap();
    match t[q..r].iter().position(|x| x.kind == "spawn").map(|p| q + p) {
      None => labs.push(run_lab(0, t[q].g, t[last].g, t[last].g, None)),
      Some(sp) => {
        labs.push(run_lab(0, t[q].g, t[q].g, t[last].g, None));
        let st = t[sp..r].iter().position(|x| x.kind == "acq_w" && x.lk == Lk::Cell).and_then(|p| find_rel(t, sp + p, Lk::Cell, r));
        let st = match st {
          Some(s) => s,
          None => {
            bad.push("source: the new timer was not stored".into());
            labs.push(point(0, t[sp].g));
            continue;
          }
        };
        labs.push(run_lab(0, t[sp].g, t[sp].g, t[st].g, None));
        let q3 = next_sig(t, st + 1);
        if q3 >= r || !(t[q3].kind == "acq_r" && t[q3].lk == Lk::SN) {
          bad.push("source: no re-check after the timer was stored".into());
          continue;
        }
        let (rd3, a3) = sub_reads(t, ev, q3);
        let l3 = *rd3.last().unwrap();
        if t[a3.min(r)..r].iter().any(|x| x.kind == "acq_w" && x.lk == Lk::Cell) {
          labs.push(run_lab(0, t[q3].g, t[l3].g, t[r - 1].g, None));
        } else {
          labs.push(run_lab(0, t[q3].g, t[q3].g, t[l3].g, None));
        }
      }
    }
  }
}

/// Debounce: a terminal call of the source is two LTS steps: `call -> mid1` = the delivery (from the claim of the source
/// observer's fn_next to the callback's return, linearised like `parse_terminal`), `mid1 -> advance` = `finalize` (the rest,
/// linearised at the write of the scheduler's `abort` flag when there is one)
fn parse_terminal_debounce(t: &[Tok], a: usize, r: usize, labs: &mut Vec<Lab>, bad: &mut Vec<String>) {
  let g = next_sig(t, a);
  if g >= r || !(t[g].kind == "acq_w" && t[g].lk == Lk::UN) {
    bad.push("source terminal: no claim of the source observer's fn_next".into());
    return;
  }
  if let Some(l) = no_callback(t, g, r) {
    labs.push(run_lab(0, t[g].g, t[l].g, t[l].g, None));
    return;
  }
  let (at, cb) = terminal_decision(t, g, r);
  let hi = match cb {
    Some(cb) => t[cb..r].iter().position(|x| x.kind == "h" && x.text == "cbret").map(|p| cb + p).unwrap_or(at),
    None => at,
  };
  labs.push(run_lab(0, t[g].g, t[at].g, t[hi].g, outs(t, g, r)));
  let lo = next_sig(t, hi + 1).min(r - 1);
  let ab = t[lo..r].iter().position(|x| x.kind == "acq_w" && x.lk == Lk::QAbort).map(|p| lo + p).unwrap_or(lo);
  labs.push(run_lab(0, t[lo].g, t[ab].g, t[r - 1].g, None));
}

/// Debounce's scheduler thread (LTS thread 2), `while sctl.is_subscribed() { sleep; take; emit }`:
///   check -> body      `is_subscribed()` followed by the `sleep` (linearised at its first read)
///   check -> waiting   `is_subscribed()` followed by the queue mutex (back in `scheduling`; last read)
///   body -> sleeping   the `sleep` event;   sleeping -> take  the `wake` event
///   take -> emit       the write of the value cell
///   emit -> check      `sink_next` when there was a value (see `parse_sink_next`), else no event of its own: the release
///                      of the value cell
///   waiting -> exited  the `exit` event
fn parse_debounce_worker(t: &[Tok], ev: &[facade::Event], tid: usize, labs: &mut Vec<Lab>, bad: &mut Vec<String>) {
  let mut i = match t.iter().position(|x| x.kind == "acq_r" && x.lk == Lk::SN) {
    Some(i) => i,
    None => return,
  };
  loop {
    if i >= t.len() || !(t[i].kind == "acq_r" && t[i].lk == Lk::SN) {
      if i < t.len() {
        bad.push("debounce worker: no is_subscribed at the loop head".into());
      }
      return;
    }
    let (rd, after) = sub_reads(t, ev, i);
    let last = *rd.last().unwrap();
    if after >= t.len() {
      return;
    }
    if t[after].kind == "lock" {
      labs.push(run_lab(tid, t[i].g, t[last].g, t[last].g, None));
      if let Some(p) = t[after..].iter().position(|x| x.kind == "exit") {
        labs.push(point(tid, t[after + p].g));
      }
      return;
    }
    if t[after].kind != "sleep" {
      bad.push("debounce worker: neither sleep nor return after is_subscribed".into());
      return;
    }
    labs.push(run_lab(tid, t[i].g, t[i].g, t[last].g, None));
    labs.push(point(tid, t[after].g));
    let w = match t[after..].iter().position(|x| x.kind == "wake") {
      Some(p) => after + p,
      None => return,
    };
    labs.push(point(tid, t[w].g));
    let c = match t[w..].iter().position(|x| x.kind == "acq_w" && x.lk == Lk::Cell) {
      Some(p) => w + p,
      None => {
        bad.push("debounce worker: value cell not taken".into());
        return;
      }
    };
    labs.push(point(tid, t[c].g));
    let rel = find_rel(t, c, Lk::Cell, t.len()).unwrap_or(c);
    let n = next_sig(t, rel + 1);
    if n >= t.len() {
      return;
    }
    // is the next `is_subscribed()` the one of `sink_next` (a fetch or `finalize` follows) or the loop head's?
    let (rd2, af2) = if t[n].kind == "acq_r" && t[n].lk == Lk::SN { sub_reads(t, ev, n) } else { (vec![], n) };
    let sink = !rd2.is_empty() && af2 < t.len() && ((t[af2].kind == "acq_r" && t[af2].lk == Lk::SN && rd2.len() == 3) || (t[af2].kind == "acq_r" && t[af2].lk == Lk::Unsc));
    if sink {
      i = next_sig(t, parse_sink_next(tid, t, ev, n, t.len(), labs, bad));
    } else {
      labs.push(point(tid, t[rel].g));
      i = n;
    }
  }
}

/// Sample's trigger thread (LTS thread 2), stamps `trgcall` / `trgret`:
///   sleeping -> call   the `trgcall` stamp
///   call -> mid1       `next`: from the fetch of the trigger observer's fn_next to the write of the value cell (linearised
///                      there); `call -> advance` at the fetch when nothing follows (observer cleared)
///   mid1 -> advance    `sink_next` when there was a value, else the release of the value cell
///   terminal entries   the claim of the trigger observer's fn_next (its callbacks do nothing)
fn parse_trigger(t: &[Tok], ev: &[facade::Event], tid: usize, labs: &mut Vec<Lab>, bad: &mut Vec<String>) {
  let mut i = 0usize;
  loop {
    let c = match t[i..].iter().position(|x| x.kind == "h" && x.text.starts_with("trgcall ")) {
      Some(p) => i + p,
      None => return,
    };
    let r = match t[c..].iter().position(|x| x.kind == "h" && x.text == "trgret") {
      Some(p) => c + p,
      None => {
        bad.push("trigger: a call did not return before END".into());
        return;
      }
    };
    labs.push(point(tid, t[c].g));
    i = r + 1;
    let gate = next_sig(t, c + 1);
    if gate >= r || t[gate].lk != Lk::TN(0) {
      bad.push("trigger: no access to the trigger observer's fn_next".into());
      return;
    }
    if !t[c].text.starts_with("trgcall n") || next_sig(t, gate + 1) >= r {
      labs.push(point(tid, t[gate].g));
      continue;
    }
    let p = match t[gate..r].iter().position(|x| x.kind == "acq_w" && x.lk == Lk::Cell) {
      Some(p) => gate + p,
      None => {
        bad.push("trigger: value cell not taken".into());
        return;
      }
    };
    labs.push(run_lab(tid, t[gate].g, t[p].g, t[p].g, None));
    let rel = find_rel(t, p, Lk::Cell, r).unwrap_or(p);
    let n = next_sig(t, rel + 1);
    if n < r && t[n].kind == "acq_r" && t[n].lk == Lk::SN {
      parse_sink_next(tid, t, ev, n, r, labs, bad);
    } else {
      labs.push(point(tid, t[rel].g));
    }
  }
}

/// the driver of `Rx.Timed.Rounds` (LTS thread 0), per round:
///   subscribe -> holding   `interval(d).subscribe(..)`: `drvsub` .. `drvsubret`, linearised at the `spawn` of the scheduler thread
///   holding -> pausing     `sb.unsubscribe()`: `drvunsub` .. `drvunsubret`, linearised at the clear of the observer's fn_next
///                          (the second write: the first is the Subscription's own `fn_unsubscribe` slot)
///   pausing -> ..          the `drvnext` stamp after the pause
fn parse_driver(t: &[Tok], labs: &mut Vec<Lab>, bad: &mut Vec<String>) {
  let mut i = 0usize;
  loop {
    let a = match t[i..].iter().position(|x| x.kind == "h" && x.text == "drvsub") {
      Some(p) => i + p,
      None => return,
    };
    let find = |from: usize, m: &str| t[from..].iter().position(|x| x.kind == "h" && x.text == m).map(|p| from + p);
    let b = match find(a, "drvsubret") {
      Some(b) => b,
      None => return,
    };
    match t[a..b].iter().position(|x| x.kind == "spawn") {
      Some(p) => labs.push(run_lab(0, t[a].g, t[a + p].g, t[b].g, None)),
      None => bad.push("driver: subscribe spawned no thread".into()),
    }
    let (c, e) = match (find(b, "drvunsub"), find(b, "drvunsubret")) {
      (Some(c), Some(e)) => (c, e),
      _ => return,
    };
    let ws: Vec<usize> = (c..e).filter(|k| t[*k].kind == "acq_w").collect();
    match ws.get(1) {
      Some(w) => labs.push(run_lab(0, t[c].g, t[*w].g, t[e].g, None)),
      None => bad.push("driver: unsubscribe cleared nothing".into()),
    }
    match find(e, "drvnext") {
      Some(n) => {
        labs.push(point(0, t[n].g));
        i = n + 1;
      }
      None => return,
    }
  }
}

fn render(sc: &TimedSc, out: &Outcome) -> String {
  // the LTS run ends at the main thread's `END` stamp
  let end = out.events.iter().position(|e| e.kind == "h" && e.payload.starts_with("END@")).unwrap_or(out.events.len());
  let ev = &out.events[..end];
  let tb = build_table(ev, sc.kind);
  let mut bad: Vec<String> = Vec::new();
  // ---- roles -------------------------------------------------------------------------------------------------------
  let mut src = None;
  let mut trg = None;
  let mut uns = None;
  let mut drv = None;
  let mut lib: Vec<usize> = Vec::new();
  for e in ev.iter() {
    match (e.kind, e.payload.rsplitn(2, '@').last().unwrap_or("")) {
      ("h", "src") => src = Some(e.tid),
      ("h", "trg") => trg = Some(e.tid),
      ("h", "unsub") => uns = Some(e.tid),
      ("h", "drv") => drv = Some(e.tid),
      ("start", _) => lib.push(e.tid),
      _ => {}
    }
  }
  lib.retain(|t| Some(*t) != src && Some(*t) != trg && Some(*t) != uns && Some(*t) != drv);
  lib.sort(); // task ids are handed out in spawn order
  let spawns = ev.iter().filter(|e| e.kind == "spawn").count();
  if spawns != lib.len() + [src, trg, uns, drv].iter().filter(|x| x.is_some()).count() {
    bad.push("a spawned thread never started".into());
  }
  // ---- labels ------------------------------------------------------------------------------------------------------
  let mut labs: Vec<Lab> = Vec::new();
  let mut cur = 0u64;
  for (g, e) in ev.iter().enumerate() {
    if e.kind == "wake" {
      if let Ok(t) = e.payload.parse::<u64>() {
        if t > cur {
          cur = t;
          labs.push(Lab { lo: g, hi: g, at: g, text: format!("tick {}", t), out: None });
        }
      }
    }
  }
  let two = matches!(sc.kind, Kind::Timeout | Kind::Debounce | Kind::Sample);
  if let Some(u) = uns {
    parse_unsub(&tokens(ev, u, &tb), two, &mut labs, &mut bad);
  }
  match sc.kind {
    Kind::Timeout | Kind::Delay => {
      if let Some(s) = src {
        parse_src(&tokens(ev, s, &tb), ev, sc.kind, &mut labs, &mut bad);
      }
      for (i, t) in lib.iter().enumerate() {
        parse_iw(&tokens(ev, *t, &tb), ev, 2 + i, false, &mut labs, &mut bad);
      }
    }
    Kind::Interval => {
      for t in lib.iter().take(1) {
        parse_iw(&tokens(ev, *t, &tb), ev, 0, true, &mut labs, &mut bad);
      }
    }
    Kind::Timer => {
      for t in lib.iter().take(1) {
        parse_timer_worker(&tokens(ev, *t, &tb), 0, &mut labs, &mut bad);
      }
    }
    Kind::Rounds => {
      if let Some(dv) = drv {
        parse_driver(&tokens(ev, dv, &tb), &mut labs, &mut bad);
      }
      for (i, t) in lib.iter().enumerate() {
        parse_iw(&tokens(ev, *t, &tb), ev, 1 + i, false, &mut labs, &mut bad);
      }
    }
    Kind::Debounce => {
      if let Some(s) = src {
        parse_src(&tokens(ev, s, &tb), ev, sc.kind, &mut labs, &mut bad);
      }
      for t in lib.iter().take(1) {
        parse_debounce_worker(&tokens(ev, *t, &tb), ev, 2, &mut labs, &mut bad);
      }
    }
    Kind::Sample => {
      if let Some(s) = src {
        parse_src(&tokens(ev, s, &tb), ev, sc.kind, &mut labs, &mut bad);
      }
      if let Some(s) = trg {
        parse_trigger(&tokens(ev, s, &tb), ev, 2, &mut labs, &mut bad);
      }
    }
  }
  let _ = tb.timers;
  labs.sort_by_key(|l| l.at);
  // ---- what the harness observed -------------------------------------------------------------------------------------
  let got: Vec<String> = ev.iter().filter(|e| e.kind == "h" && e.payload.starts_with("cb ")).map(|e| e.payload[3..].to_string()).collect();
  let exits: Vec<String> = lib
    .iter()
    .map(|t| ev.iter().find(|e| e.kind == "exit" && e.tid == *t).map(|e| e.payload.clone()).unwrap_or_else(|| "-".to_string()))
    .collect();
  let text: Vec<String> = labs
    .iter()
    .map(|l| {
      let o = l.out.as_ref().map(|o| format!("!{}", o)).unwrap_or_default();
      if l.lo == l.hi {
        format!("{}{}@{}", l.text, o, l.at)
      } else {
        format!("{}{}@{}.{}.{}", l.text, o, l.lo, l.at, l.hi)
      }
    })
    .collect();
  format!(
    "{} ; got={} exits={} table={} bad={} ; {}",
    sc.text,
    if got.is_empty() { "-".to_string() } else { got.join(",") },
    if exits.is_empty() { "-".to_string() } else { exits.join(",") },
    if tb.ok { "ok" } else { "BAD" },
    if bad.is_empty() { "-".to_string() } else { bad.join("/").replace(' ', "_") },
    text.join(";")
  )
}
