use crate::sexp::Sexp;
use crate::Scenario;
pub fn build(_a: &[Sexp]) -> Option<Box<dyn Scenario>> {
  None
}
